(* Session-level download integrity over the Leech model: for every event history and every
   observed piece assignment (legal or not), storage is written only from a buffer all of whose
   blocks were accepted with the true bytes, Done/bitfield/have only follow such a write, at most
   one write is in flight, a source whose buffer fails the hash check is closed and banned and a
   closed peer never downloads again. *)
From RainV Require Import Lib Geometry SectionIO PieceDl PieceDlProofs Leech.
From Coq Require Import ZifyBool.

(* ---- the part of the state the peers' bookkeeping never touches ---- *)
Definition core (s : lst) :=
  (s_blocks s, s_secs s, s_done s, s_writing s, s_inflight s, s_banned s, s_completed s, s_inhist s, s_written s, s_q s, s_maxdup s).

Lemma core_with_peers s ps : core (with_peers s ps) = core s. Proof. reflexivity. Qed.
Lemma core_upd_p s p f : core (upd_p s p f) = core s.
Proof. unfold upd_p. destruct (p <? 0); reflexivity. Qed.
Lemma core_with_bad s w : core (with_bad s w) = core s. Proof. reflexivity. Qed.
Lemma core_close_peer s p : core (close_peer s p) = core s. Proof. apply core_upd_p. Qed.
Lemma core_do_request s p : core (do_request s p) = core s.
Proof. unfold do_request. destruct (q_dl (get_p s p)); [|reflexivity]. destruct (request_blocks _ _). apply core_upd_p. Qed.
Lemma core_upd_interest s p : core (upd_interest s p) = core s.
Proof. unfold upd_interest. destruct (Bool.eqb _ _); [reflexivity|apply core_upd_p]. Qed.
Lemma core_close_t fixed s p : core (fst (close_t fixed s p)) = core s.
Proof. unfold close_t. cbn. apply core_close_peer. Qed.
Lemma core_clear_frames s : core (clear_frames s) = core s. Proof. reflexivity. Qed.

Lemma core_assign_go : forall asg s tried all p, core (assign_go s tried asg all p) = core s.
Proof.
  induction asg as [|a r IH]; intros s tried all p; cbn [assign_go]; [reflexivity|].
  rewrite IH. destruct (q_dl (get_p s p)) as [d|], (dec_asg a) as [[i af]|].
  - destruct (_ && _); [reflexivity|apply core_with_bad].
  - apply core_with_bad.
  - destruct (_ && _); [|apply core_with_bad]. rewrite core_do_request. apply core_upd_p.
  - reflexivity.
Qed.
Lemma core_assign s tried asg : core (assign s tried asg) = core s.
Proof. unfold assign. destruct (Nat.eqb _ _); [apply core_assign_go|apply core_with_bad]. Qed.
Lemma core_post_check s : core (post_check s) = core s.
Proof. unfold post_check. destruct (first_such _ _); [apply core_with_bad|]. destruct (first_such _ _); [apply core_with_bad|reflexivity]. Qed.

Ltac core_inj H :=
  unfold core in H; inversion H; clear H.

(* ---- handlers that leave the core untouched ---- *)
Lemma core_h_have fixed s p i : core (fst (h_have fixed s p i)) = core s.
Proof. unfold h_have. destruct (_ || _); [apply core_close_t|]. cbn. rewrite core_upd_interest. apply core_upd_p. Qed.
Lemma core_h_bits fixed s p bits bad : core (fst (h_bits fixed s p bits bad)) = core s.
Proof. unfold h_bits. destruct bad; [apply core_close_t|]. cbn. rewrite core_upd_interest. apply core_upd_p. Qed.
Lemma core_h_allowed_fast fixed s p i : core (fst (h_allowed_fast fixed s p i)) = core s.
Proof. unfold h_allowed_fast. destruct (_ || _); [apply core_close_t|]. cbn. apply core_upd_p. Qed.
Lemma core_h_unchoke s p : core (fst (h_unchoke s p)) = core s.
Proof.
  unfold h_unchoke. destruct (q_dl (get_p s p)) as [d|]; [destruct (l_af d)|]; cbn;
    rewrite ?core_do_request; apply core_upd_p.
Qed.
Lemma core_h_choke s p : core (fst (h_choke s p)) = core s.
Proof.
  unfold h_choke. destruct (q_dl (get_p s p)) as [d|]; [destruct (l_af d)|]; cbn; rewrite ?core_upd_p; reflexivity.
Qed.
Lemma core_h_reject fixed s p i b n : core (fst (h_reject fixed s p i b n)) = core s.
Proof.
  unfold h_reject. destruct (_ || _); [apply core_close_t|].
  destruct (q_dl (get_p s p)) as [d|]; [|reflexivity]. destruct (negb _); [reflexivity|].
  destruct (rejected _ _ _) as [pd' ok]. destruct ok; [cbn; apply core_upd_p|apply core_close_t].
Qed.
Lemma core_h_snub s p : core (fst (h_snub s p)) = core s.
Proof. unfold h_snub. destruct (q_dl _); [destruct (q_choking _)|]; reflexivity. Qed.
Lemma core_h_disconnect fixed s p : core (fst (h_disconnect fixed s p)) = core s.
Proof. apply core_close_t. Qed.
Lemma core_h_connect s p f : core (fst (h_connect s p f)) = core s.
Proof. unfold h_connect. destruct (q_present _); cbn; [reflexivity|apply core_upd_p]. Qed.
Lemma core_h_ext s p a : core (fst (h_ext s p a)) = core s.
Proof. apply core_upd_p. Qed.

(* ---- list helpers ---- *)
Lemma upd_list_Forall {A} (P : A -> Prop) (f : A -> A) : forall l i,
  Forall P l -> (forall x, nth_error l i = Some x -> P x -> P (f x)) -> Forall P (upd_list l i f).
Proof.
  induction l as [|x r IH]; intros i Hl Hf; cbn; [constructor|]. inversion Hl; subst.
  destruct i as [|k]; constructor; try assumption.
  - apply Hf; [reflexivity|assumption].
  - apply IH; [assumption|]. intros y Hy. apply Hf. exact Hy.
Qed.
Lemma upd_list_length {A} (f : A -> A) : forall l i, length (upd_list l i f) = length l.
Proof. induction l as [|x r IH]; intros [|k]; cbn; auto. Qed.
Lemma nth_error_nth_default {A} (l : list A) i x d : nth_error l i = Some x -> nth i l d = x.
Proof. revert i; induction l as [|y r IH]; intros [|k] H; cbn in *; try discriminate; [congruence|auto]. Qed.
Lemma setb_length : forall l i v, length (setb l i v) = length l.
Proof. induction l as [|x r IH]; intros [|k] v; cbn; auto. Qed.
Lemma nth_setb : forall l i v n, nth n (setb l i v) false = if (Nat.eqb n i && Nat.ltb i (length l))%bool then v else nth n l false.
Proof.
  induction l as [|x r IH]; intros i v n; cbn.
  - rewrite Bool.andb_false_r. destruct n; reflexivity.
  - destruct i as [|k], n as [|m]; cbn; auto. rewrite IH. reflexivity.
Qed.
Lemma Forall_nth_default {A} (P : A -> Prop) l d i : Forall P l -> P d -> P (nth i l d).
Proof. intros Hl Hd. revert i; induction Hl; intros [|k]; cbn; auto. Qed.

(* ---- downloaders: ghost history agrees with the bookkeeping ---- *)
Definition dl_ok (bls : list (list blk)) (d : ldl) : Prop :=
  l_good d = forallb snd (l_hist d) /\ map fst (l_hist d) = pd_done (l_pd d) /\
  pd_blocks (l_pd d) = nth (Z.to_nat (l_idx d)) bls [] /\ NoDup (pd_done (l_pd d)) /\
  incl (pd_done (l_pd d)) (map bbeg (pd_blocks (l_pd d))) /\ 0 <= l_idx d.
Definition PP (bls : list (list blk)) (q : lpeer) : Prop :=
  (forall d, q_dl q = Some d -> dl_ok bls d) /\ (q_closed q = true -> q_dl q = None).
Definition peers_ok (s : lst) : Prop := Forall (PP (s_blocks s)) (s_peers s).

Lemma PP_default bls : PP bls default_peer.
Proof. split; [intros d H; discriminate|reflexivity]. Qed.
Lemma PP_get s p : peers_ok s -> PP (s_blocks s) (get_p s p).
Proof. intros H. unfold get_p. apply Forall_nth_default; [exact H|apply PP_default]. Qed.

Lemma blocks_upd_p s p f : s_blocks (upd_p s p f) = s_blocks s.
Proof. unfold upd_p. destruct (p <? 0); reflexivity. Qed.

Lemma peers_ok_upd s p f : peers_ok s ->
  (PP (s_blocks s) (get_p s p) -> PP (s_blocks s) (f (get_p s p))) -> peers_ok (upd_p s p f).
Proof.
  intros H Hf. unfold peers_ok. rewrite blocks_upd_p. unfold upd_p. destruct (p <? 0) eqn:E; [exact H|]. cbn.
  apply upd_list_Forall; [exact H|]. intros x Hx Px.
  assert (get_p s p = x) by (unfold get_p; apply nth_error_nth_default; exact Hx). subst x. apply Hf. exact Px.
Qed.

(* field-only updates *)
Lemma PP_same_dl bls q q' : q_dl q' = q_dl q -> q_closed q' = q_closed q -> PP bls q -> PP bls q'.
Proof. intros E1 E2 [A B]. split; rewrite ?E1, ?E2; assumption. Qed.
Lemma PP_add_frames bls q fs : PP bls q -> PP bls (add_frames q fs).
Proof. unfold add_frames. destruct (q_closed q) eqn:E; [auto|]. apply PP_same_dl; [reflexivity|cbn; congruence]. Qed.
Lemma PP_close bls q : PP bls q -> PP bls (close_q q).
Proof. intros P. unfold close_q. destruct (negb (q_present q)); [exact P|]. split; [intros d H; discriminate|reflexivity]. Qed.
Lemma PP_set_dl_none bls q : PP bls q -> PP bls (set_dl q None).
Proof. intros [A B]. split; [intros d H; discriminate|reflexivity]. Qed.
Lemma PP_set_dl_some bls q d : q_closed q = false -> dl_ok bls d -> PP bls (set_dl q (Some d)).
Proof. intros Hc Hd. split; cbn; [intros d' E; inversion E; subst; exact Hd|intros E; congruence]. Qed.

Lemma req_blocks_keep : forall rem d q sent,
  pd_done (fst (req_blocks d rem q sent)) = pd_done d /\ pd_blocks (fst (req_blocks d rem q sent)) = pd_blocks d.
Proof.
  induction rem as [|b r IH]; intros d q sent; cbn [req_blocks]; [auto|].
  destruct (zlen (pd_pending d) >=? q); [auto|]. match goal with |- context [req_blocks ?d' r q ?s'] => destruct (IH d' q s') as [A B] end.
  rewrite A, B. auto.
Qed.
Lemma request_blocks_keep d q : pd_done (fst (request_blocks d q)) = pd_done d /\ pd_blocks (fst (request_blocks d q)) = pd_blocks d.
Proof. apply req_blocks_keep. Qed.

Lemma dl_ok_repd bls d pd' : pd_done pd' = pd_done (l_pd d) -> pd_blocks pd' = pd_blocks (l_pd d) -> dl_ok bls d ->
  dl_ok bls {| l_idx := l_idx d; l_af := l_af d; l_pd := pd'; l_good := l_good d; l_hist := l_hist d |}.
Proof. intros E1 E2 (A & B & C & D & E & F). unfold dl_ok; cbn. rewrite E1, E2. auto 7. Qed.

Lemma peers_ok_do_request s p : peers_ok s -> peers_ok (do_request s p).
Proof.
  intros H. unfold do_request. destruct (q_dl (get_p s p)) as [d|] eqn:Ed; [|exact H].
  destruct (request_blocks (l_pd d) (eff_q s (get_p s p))) as [pd' sent] eqn:Er.
  apply peers_ok_upd; [exact H|]. intros [A B]. apply PP_add_frames. apply PP_set_dl_some.
  - destruct (q_closed (get_p s p)) eqn:Ec; [rewrite (B eq_refl) in Ed; discriminate|reflexivity].
  - pose proof (request_blocks_keep (l_pd d) (eff_q s (get_p s p))) as [K1 K2]. rewrite Er in K1, K2. cbn in K1, K2.
    apply dl_ok_repd; auto.
Qed.

Lemma peers_ok_close s p : peers_ok s -> peers_ok (close_peer s p).
Proof. intros H. apply peers_ok_upd; [exact H|]. apply PP_close. Qed.
Lemma peers_ok_close_t fixed s p : peers_ok s -> peers_ok (fst (close_t fixed s p)).
Proof. apply peers_ok_close. Qed.
Lemma peers_ok_interest s p : peers_ok s -> peers_ok (upd_interest s p).
Proof.
  intros H. unfold upd_interest. destruct (Bool.eqb _ _); [exact H|]. apply peers_ok_upd; [exact H|].
  intros P. apply PP_add_frames. eapply PP_same_dl; [| |exact P]; reflexivity.
Qed.
Lemma peers_ok_with_bad s w : peers_ok s -> peers_ok (with_bad s w). Proof. auto. Qed.
Lemma peers_ok_field s p f : (forall q, q_dl (f q) = q_dl q /\ q_closed (f q) = q_closed q) -> peers_ok s -> peers_ok (upd_p s p f).
Proof. intros Hf H. apply peers_ok_upd; [exact H|]. intros P. destruct (Hf (get_p s p)). eapply PP_same_dl; eauto. Qed.

Lemma new_dl_ok s q i af : 0 <= i -> dl_ok (s_blocks s) (new_dl s q i af).
Proof.
  intros Hi. unfold dl_ok, new_dl; cbn. repeat split; auto; try constructor. intros x [].
Qed.

Lemma peers_ok_assign_go : forall asg s tried all p, peers_ok s -> peers_ok (assign_go s tried asg all p).
Proof.
  induction asg as [|a r IH]; intros s tried all p H; cbn [assign_go]; [exact H|]. apply IH.
  destruct (q_dl (get_p s p)) as [d|] eqn:Ed, (dec_asg a) as [[i af]|].
  - destruct (_ && _); [exact H|apply peers_ok_with_bad; exact H].
  - apply peers_ok_with_bad; exact H.
  - destruct (zmem p tried && legal_new s all (get_p s p) i af) eqn:El; [|apply peers_ok_with_bad; exact H].
    apply peers_ok_do_request. apply peers_ok_upd; [exact H|]. intros _.
    unfold legal_new, open_q in El. apply PP_set_dl_some; [destruct (q_closed (get_p s p)); [|reflexivity]|apply new_dl_ok; lia].
    exfalso. rewrite !Bool.andb_true_iff in El. cbn in El. intuition discriminate.
  - exact H.
Qed.
Lemma peers_ok_assign s tried asg : peers_ok s -> peers_ok (assign s tried asg).
Proof. intros H. unfold assign. destruct (Nat.eqb _ _); [apply peers_ok_assign_go; exact H|exact H]. Qed.
Lemma peers_ok_post_check s : peers_ok s -> peers_ok (post_check s).
Proof. intros H. unfold post_check. destruct (first_such _ _); [exact H|]. destruct (first_such _ _); exact H. Qed.

Lemma got_nb_ok bls d b n good pd' g : dl_ok bls d -> got_nb (l_pd d) b n = (pd', g) ->
  match g with
  | GInvalid | GDuplicate => pd' = l_pd d
  | _ => dl_ok bls {| l_idx := l_idx d; l_af := l_af d; l_pd := pd'; l_good := l_good d && good; l_hist := l_hist d ++ [(b, good)] |}
  end.
Proof.
  intros (A & B & C & D & E & F) H. unfold got_nb in H.
  destruct (negb (find_block (l_pd d) b n)) eqn:Ef; [inversion H; reflexivity|].
  destruct (zmem b (pd_done (l_pd d))) eqn:Ez; [inversion H; reflexivity|].
  assert (Hnd : ~ In b (pd_done (l_pd d))) by (intros Hc; apply zmem_true in Hc; congruence).
  assert (Hin : In b (map bbeg (pd_blocks (l_pd d)))).
  { unfold find_block in Ef. destruct (block_len b (pd_blocks (l_pd d))) as [len|] eqn:Eb; [|discriminate].
    destruct (block_len_in _ _ _ Eb) as (blk & Hi & Hb & _). rewrite <- Hb. apply in_map. exact Hi. }
  assert (G : dl_ok bls {| l_idx := l_idx d; l_af := l_af d;
                           l_pd := {| pd_blocks := pd_blocks (l_pd d); pd_remaining := pd_remaining (l_pd d); pd_pending := zrem b (pd_pending (l_pd d));
                                      pd_done := pd_done (l_pd d) ++ [b]; pd_buf := pd_buf (l_pd d); pd_af := pd_af (l_pd d); pd_fast := pd_fast (l_pd d) |};
                           l_good := l_good d && good; l_hist := l_hist d ++ [(b, good)] |}).
  { unfold dl_ok; cbn. rewrite forallb_app, map_app, A, B. cbn. rewrite Bool.andb_true_r. repeat split; auto.
    - apply NoDup_app_one; assumption.
    - intros x Hx. apply in_app_or in Hx as [Hx|[<-|[]]]; auto. }
  destruct (zmem b (pd_pending (l_pd d))); inversion H; subst; exact G.
Qed.

Lemma peers_ok_h_ext s p a : peers_ok s -> peers_ok (fst (h_ext s p a)).
Proof. intros H. apply peers_ok_field; [|exact H]. intros q. destruct (q_reqq q <? 0); split; reflexivity. Qed.

(* ---- the global invariant ---- *)
Definition covers (bl : list blk) (h : list (Z * bool)) : Prop :=
  NoDup (map fst h) /\ (forall b, In b (map bbeg bl) <-> In b (map fst h)).

Record GInv (d0 : list bool) (s : lst) : Prop := {
  gi_peers : peers_ok s;
  gi_len : length (s_writing s) = length (s_done s);
  gi_written : forall i g h, In (i, g, h) (s_written s) ->
      g = true /\ forallb snd h = true /\ covers (nth (Z.to_nat i) (s_blocks s) []) h /\ 0 <= i;
  gi_done : forall n, nth n (s_done s) false = true ->
      nth n d0 false = true \/ exists h, In (Z.of_nat n, true, h) (s_written s);
  gi_flight : forall src i g, s_inflight s = Some (src, i, g) ->
      g = forallb snd (s_inhist s) /\ covers (nth (Z.to_nat i) (s_blocks s) []) (s_inhist s) /\ 0 <= i < np_of s;
  gi_one : forall n, nth n (s_writing s) false = true -> exists src g, s_inflight s = Some (src, Z.of_nat n, g)
}.

Lemma ginv_core d0 s s' : core s' = core s -> peers_ok s' -> GInv d0 s -> GInv d0 s'.
Proof.
  intros Hc Hp [A B C D E F]. unfold core in Hc. inversion Hc as [[H1 H2 H3 H4 H5 H6 H7 H8 H9 H10 H11]].
  constructor; unfold np_of; rewrite ?H1, ?H3, ?H4, ?H5, ?H8, ?H9; auto.
Qed.

Lemma peers_ok_clear s : peers_ok s -> peers_ok (clear_frames s).
Proof.
  intros H. unfold peers_ok, clear_frames. cbn. apply Forall_forall. intros q Hq. apply in_map_iff in Hq as (q0 & <- & Hq0).
  unfold peers_ok in H. rewrite Forall_forall in H. eapply PP_same_dl; [| |apply H; exact Hq0]; reflexivity.
Qed.

Lemma fold_upd_core f : forall l s, core (fold_left (fun s p => upd_p s p f) l s) = core s.
Proof. induction l as [|x r IH]; intros s; cbn; [reflexivity|]. rewrite IH. apply core_upd_p. Qed.
Lemma fold_upd_peers f : (forall bls q, PP bls q -> PP bls (f q)) -> forall l s, peers_ok s -> peers_ok (fold_left (fun s p => upd_p s p f) l s).
Proof. intros Hf. induction l as [|x r IH]; intros s H; cbn; [exact H|]. apply IH. apply peers_ok_upd; [exact H|]. apply Hf. Qed.

(* ---- peers_ok through the simple handlers ---- *)
Lemma choked_keep d : pd_done (choked d) = pd_done d /\ pd_blocks (choked d) = pd_blocks d.
Proof. unfold choked. destruct (_ || _); auto. Qed.
Lemma rejected_keep d b n : pd_done (fst (rejected d b n)) = pd_done d /\ pd_blocks (fst (rejected d b n)) = pd_blocks d.
Proof. unfold rejected. destruct (find_block d b n); auto. Qed.

Lemma not_closed_of_dl bls q d : PP bls q -> q_dl q = Some d -> q_closed q = false.
Proof. intros [_ B] E. destruct (q_closed q); [rewrite (B eq_refl) in E; discriminate|reflexivity]. Qed.

Lemma peers_ok_h_have fixed s p i : peers_ok s -> peers_ok (fst (h_have fixed s p i)).
Proof.
  intros H. unfold h_have. destruct (_ || _); [apply peers_ok_close_t; exact H|]. cbn.
  apply peers_ok_interest. apply peers_ok_field; [intros q; split; reflexivity|exact H].
Qed.
Lemma peers_ok_h_bits fixed s p bits bad : peers_ok s -> peers_ok (fst (h_bits fixed s p bits bad)).
Proof.
  intros H. unfold h_bits. destruct bad; [apply peers_ok_close_t; exact H|]. cbn.
  apply peers_ok_interest. apply peers_ok_field; [intros q; split; reflexivity|exact H].
Qed.
Lemma peers_ok_h_af fixed s p i : peers_ok s -> peers_ok (fst (h_allowed_fast fixed s p i)).
Proof.
  intros H. unfold h_allowed_fast. destruct (_ || _); [apply peers_ok_close_t; exact H|]. cbn.
  apply peers_ok_field; [intros q; split; reflexivity|exact H].
Qed.
Lemma peers_ok_h_unchoke s p : peers_ok s -> peers_ok (fst (h_unchoke s p)).
Proof.
  intros H. unfold h_unchoke.
  assert (H1 : peers_ok (upd_p s p (fun q => set_choking q false))) by (apply peers_ok_field; [intros q; split; reflexivity|exact H]).
  destruct (q_dl (get_p s p)) as [d|]; [destruct (l_af d)|]; cbn; auto; apply peers_ok_do_request; exact H1.
Qed.
Lemma get_upd_same_dl s p f : (forall q, q_dl (f q) = q_dl q) -> q_dl (get_p (upd_p s p f) p) = q_dl (get_p s p).
Proof.
  intros Hf. unfold upd_p, get_p. destruct (p <? 0) eqn:E; [reflexivity|]. cbn.
  generalize (Z.to_nat p). generalize (s_peers s). induction l as [|x r IH]; intros [|k]; cbn; auto.
Qed.
Lemma peers_ok_h_choke s p : peers_ok s -> peers_ok (fst (h_choke s p)).
Proof.
  intros H. unfold h_choke.
  assert (H1 : peers_ok (upd_p s p (fun q => set_choking q true))) by (apply peers_ok_field; [intros q; split; reflexivity|exact H]).
  destruct (q_dl (get_p s p)) as [d|] eqn:Ed; [destruct (l_af d)|]; cbn; auto.
  apply peers_ok_upd; [exact H1|]. intros P.
  assert (Ed' : q_dl (get_p (upd_p s p (fun q => set_choking q true)) p) = Some d) by (rewrite get_upd_same_dl; auto).
  rewrite blocks_upd_p in *. apply PP_set_dl_some; [eapply not_closed_of_dl; eauto|].
  destruct (choked_keep (l_pd d)). apply dl_ok_repd; auto. destruct P as [A _]. apply A. exact Ed'.
Qed.
Lemma peers_ok_h_reject fixed s p i b n : peers_ok s -> peers_ok (fst (h_reject fixed s p i b n)).
Proof.
  intros H. unfold h_reject. destruct (_ || _); [apply peers_ok_close_t; exact H|].
  destruct (q_dl (get_p s p)) as [d|] eqn:Ed; [|exact H]. destruct (negb _); [exact H|].
  destruct (rejected (l_pd d) b n) as [pd' ok] eqn:Er. destruct ok; [|apply peers_ok_close_t; exact H]. cbn.
  apply peers_ok_upd; [exact H|]. intros P. apply PP_set_dl_some; [eapply not_closed_of_dl; eauto|].
  destruct (rejected_keep (l_pd d) b n) as [K1 K2]. rewrite Er in K1, K2. apply dl_ok_repd; auto. destruct P as [A _]. auto.
Qed.
Lemma peers_ok_h_snub s p : peers_ok s -> peers_ok (fst (h_snub s p)).
Proof. intros H. unfold h_snub. destruct (q_dl _); [destruct (q_choking _)|]; exact H. Qed.
Lemma peers_ok_h_connect s p f : peers_ok s -> peers_ok (fst (h_connect s p f)).
Proof.
  intros H. unfold h_connect. destruct (q_present _); cbn; [exact H|]. apply peers_ok_upd; [exact H|].
  intros _. split; cbn; [intros d E; discriminate|intros E; discriminate].
Qed.

Definition blocks_nodup (s : lst) : Prop := Forall (fun bl => NoDup (map bbeg bl)) (s_blocks s).

Lemma finished_covers bls d : Forall (fun bl => NoDup (map bbeg bl)) bls -> dl_ok bls d -> pd_finished (l_pd d) = true ->
  covers (nth (Z.to_nat (l_idx d)) bls []) (l_hist d).
Proof.
  intros Hnd (A & B & C & D & E & F) Hfin. unfold pd_finished in Hfin. apply Nat.eqb_eq in Hfin.
  assert (Hn : NoDup (map bbeg (pd_blocks (l_pd d)))).
  { rewrite C. apply Forall_nth_default; [exact Hnd|constructor]. }
  unfold covers. rewrite B, <- C. split; [exact D|]. intros b. split; [|apply E].
  apply NoDup_length_incl; [exact D|rewrite map_length; lia|exact E].
Qed.

(* ---- handlePieceMessage ---- *)
Lemma core_blocks s s' : core s' = core s -> s_blocks s' = s_blocks s.
Proof. intros H. unfold core in H. inversion H. reflexivity. Qed.
Lemma core_inflight s s' : core s' = core s -> s_inflight s' = s_inflight s.
Proof. intros H. unfold core in H. inversion H. reflexivity. Qed.
Lemma core_np s s' : core s' = core s -> np_of s' = np_of s.
Proof. intros H. unfold core in H. inversion H. unfold np_of. congruence. Qed.

Lemma ginv_start_write d0 s src i g h : GInv d0 s -> s_inflight s = None -> g = forallb snd h ->
  covers (nth (Z.to_nat i) (s_blocks s) []) h -> 0 <= i < np_of s ->
  GInv d0 (with_inhist (with_flags s (s_done s) (setb (s_writing s) (Z.to_nat i) true) (Some (src, i, g))) h).
Proof.
  intros [Gp Gl Gw Gd Gf Go] Hnone Hg Hc Hi. constructor; cbn.
  - exact Gp.
  - rewrite setb_length. exact Gl.
  - exact Gw.
  - exact Gd.
  - intros src0 i0 g0 E. inversion E; subst. auto.
  - intros k Hk. rewrite nth_setb in Hk.
    destruct (Nat.eqb k (Z.to_nat i) && Nat.ltb (Z.to_nat i) (length (s_writing s)))%bool eqn:Ek.
    + apply andb_prop in Ek as [Ek _]. apply Nat.eqb_eq in Ek. subst k. rewrite Z2Nat.id by lia. eauto.
    + destruct (Go k Hk) as (s1 & g1 & Hs). congruence.
Qed.

Lemma ginv_h_piece fixed d0 s p i b n good : blocks_nodup s -> s_inflight s = None -> GInv d0 s ->
  GInv d0 (fst (h_piece fixed s p i b n good)).
Proof.
  intros Hnd Hnone G. pose proof (gi_peers _ _ G) as Gp. unfold h_piece.
  destruct (q_closed (get_p s p)) eqn:Ec; [exact G|].
  destruct ((i <? 0) || (i >=? np_of s)) eqn:Ei.
  { eapply ginv_core; [apply core_close_t|apply peers_ok_close_t; exact Gp|exact G]. }
  destruct (q_dl (get_p s p)) as [d|] eqn:Ed; [|exact G].
  destruct (negb (l_idx d =? i)) eqn:Eidx; [exact G|].
  assert (Hdl : dl_ok (s_blocks s) d) by (destruct (PP_get s p Gp) as [A _]; auto).
  destruct (got_nb (l_pd d) b n) as [pd' g] eqn:Eg.
  pose proof (got_nb_ok (s_blocks s) d b n good pd' g Hdl Eg) as Hok.
  assert (Hidx : l_idx d = i) by lia.
  assert (Hcont : forall d', dl_ok (s_blocks s) d' -> GInv d0 (upd_p s p (fun q => set_dl q (Some d')))).
  { intros d' Hd'. eapply ginv_core; [apply core_upd_p| |exact G].
    apply peers_ok_upd; [exact Gp|]. intros _. apply PP_set_dl_some; [exact Ec|exact Hd']. }
  assert (Hfinish : forall d', l_idx d' = i -> dl_ok (s_blocks s) d' -> pd_finished (l_pd d') = true ->
     GInv d0 (with_inhist (with_flags (upd_p s p (fun q => set_dl q None)) (s_done (upd_p s p (fun q => set_dl q None)))
                   (setb (s_writing (upd_p s p (fun q => set_dl q None))) (Z.to_nat i) true) (Some (p, i, l_good d'))) (l_hist d'))).
  { intros d' Hi' Hd' Hfin. pose proof (core_upd_p s p (fun q => set_dl q None)) as Hc.
    apply ginv_start_write.
    - eapply ginv_core; [exact Hc| |exact G]. apply peers_ok_upd; [exact Gp|apply PP_set_dl_none].
    - rewrite (core_inflight _ _ Hc). exact Hnone.
    - destruct Hd' as (A & _). exact A.
    - rewrite (core_blocks _ _ Hc), <- Hi'. apply finished_covers; assumption.
    - rewrite (core_np _ _ Hc). lia. }
  destruct g.
  - (* GOk *)
    match goal with |- context [pd_finished pd'] => destruct (pd_finished pd') eqn:Efin end.
    + cbn [fst]. apply (Hfinish {| l_idx := l_idx d; l_af := l_af d; l_pd := pd'; l_good := l_good d && good; l_hist := l_hist d ++ [(b, good)] |} Hidx Hok Efin).
    + destruct (l_af d || negb (q_choking (get_p s p))); cbn [fst].
      * eapply ginv_core; [apply core_do_request|apply peers_ok_do_request; apply (gi_peers _ _ (Hcont _ Hok))|apply (Hcont _ Hok)].
      * apply (Hcont _ Hok).
  - eapply ginv_core; [apply core_close_t|apply peers_ok_close_t; exact Gp|exact G].
  - exact G.
  - (* GNotRequested *)
    match goal with |- context [pd_finished pd'] => destruct (pd_finished pd') eqn:Efin end.
    + cbn [fst]. apply (Hfinish {| l_idx := l_idx d; l_af := l_af d; l_pd := pd'; l_good := l_good d && good; l_hist := l_hist d ++ [(b, good)] |} Hidx Hok Efin).
    + destruct (l_af d || negb (q_choking (get_p s p))); cbn [fst].
      * eapply ginv_core; [apply core_do_request|apply peers_ok_do_request; apply (gi_peers _ _ (Hcont _ Hok))|apply (Hcont _ Hok)].
      * apply (Hcont _ Hok).
Qed.

(* ---- handlePieceWriteDone ---- *)
Lemma nth_setb_false l i n : nth n (setb l i false) false = true -> nth n l false = true /\ n <> i.
Proof.
  rewrite nth_setb. destruct (Nat.eqb n i && Nat.ltb i (length l))%bool eqn:E; [discriminate|].
  intros H. split; [exact H|]. intros ->. rewrite Nat.eqb_refl in E. cbn in E. apply Nat.ltb_ge in E.
  rewrite nth_overflow in H by lia. discriminate.
Qed.

Lemma ginv_h_write_pre d0 s werr : GInv d0 s -> GInv d0 (fst (h_write_pre s werr)).
Proof.
  intros G. pose proof G as [Gp Gl Gw Gd Gf Go]. unfold h_write_pre.
  destruct (s_inflight s) as [[[src i] good]|] eqn:E; [|cbn; eapply ginv_core; [apply core_with_bad|exact Gp|exact G]].
  destruct (Gf _ _ _ eq_refl) as (Hg & Hcov & Hi).
  assert (Hnow : forall k, nth k (setb (s_writing s) (Z.to_nat i) false) false = true -> False).
  { intros k Hk. apply nth_setb_false in Hk as [Hk Hne]. destruct (Go k Hk) as (s1 & g1 & Hs). inversion Hs. lia. }
  destruct (good && werr) eqn:Ew.
  { cbn [fst]. constructor; cbn; auto.
    - unfold peers_ok. cbn. apply Forall_forall. intros q Hq. apply in_map_iff in Hq as (q0 & <- & Hq0).
      unfold peers_ok in Gp. rewrite Forall_forall in Gp. apply PP_close. apply Gp. exact Hq0.
    - rewrite setb_length. exact Gl.
    - intros s1 i1 g1 Hs. discriminate.
    - intros k Hk. exfalso. eapply Hnow; eauto. }
  destruct good.
  - cbn [fst]. eapply ginv_core; [apply fold_upd_core| |].
    + apply fold_upd_peers.
      * intros bls q P. destruct (q_dl q); [apply PP_add_frames, PP_set_dl_none; exact P|exact P].
      * exact Gp.
    + constructor; cbn.
      * exact Gp.
      * rewrite !setb_length. exact Gl.
      * intros i0 g0 h0 Hin. apply in_app_or in Hin as [Hin|[Hin|[]]]; [apply Gw; exact Hin|].
        inversion Hin; subst i0 g0 h0. split; [reflexivity|split; [symmetry; exact Hg|split; [exact Hcov|lia]]].
      * intros k Hk. rewrite nth_setb in Hk.
        destruct (Nat.eqb k (Z.to_nat i) && Nat.ltb (Z.to_nat i) (length (s_done s)))%bool eqn:Ek.
        -- right. exists (s_inhist s). apply in_or_app. right. left. apply andb_prop in Ek as [Ek _]. apply Nat.eqb_eq in Ek.
           subst k. rewrite Z2Nat.id by lia. reflexivity.
        -- destruct (Gd k Hk) as [H0|(h & Hh)]; [left; exact H0|right; exists h; apply in_or_app; left; exact Hh].
      * intros s1 i1 g1 Hs. discriminate.
      * intros k Hk. exfalso. eapply Hnow; eauto.
  - cbn [fst].
    set (s0 := with_flags s (s_done s) (setb (s_writing s) (Z.to_nat i) false) None).
    assert (G0 : GInv d0 s0).
    { constructor; cbn; auto.
      - rewrite setb_length. exact Gl.
      - intros s1 i1 g1 Hs. discriminate.
      - intros k Hk. exfalso. eapply Hnow; eauto. }
    assert (G1 : GInv d0 (close_peer s0 src)).
    { eapply ginv_core; [apply core_close_peer|apply peers_ok_close; apply (gi_peers _ _ G0)|exact G0]. }
    destruct G1 as [Hp1 Hl1 Hw1 Hd1 Hf1 Ho1]. constructor; cbn; auto.
    intros s1 i1 g1 Hs. discriminate.
    intros k Hk. destruct (Ho1 k Hk) as (a & b & Hs). rewrite (core_inflight _ _ (core_close_peer s0 src)) in Hs. discriminate.
Qed.

Definition post_step (i : Z) (s : lst) (p : Z) : lst :=
  let q := get_p s p in
  if open_q q then
    let s' := upd_interest s p in
    if nthb (q_has q) i then s' else upd_p s' p (fun q => add_frames q [[4; i; 0; 0]])
  else s.

Lemma post_fold i : forall l s, peers_ok s ->
  core (fold_left (post_step i) l s) = core s /\ peers_ok (fold_left (post_step i) l s).
Proof.
  induction l as [|x r IH]; intros s Gp; cbn [fold_left]; [auto|].
  assert (H1 : core (post_step i s x) = core s /\ peers_ok (post_step i s x)).
  { unfold post_step. destruct (open_q (get_p s x)); [|auto]. destruct (nthb _ i).
    - split; [apply core_upd_interest|apply peers_ok_interest; exact Gp].
    - split; [rewrite core_upd_p; apply core_upd_interest|].
      apply peers_ok_upd; [apply peers_ok_interest; exact Gp|]. apply PP_add_frames. }
  destruct H1 as [A B]. destruct (IH _ B) as [C D]. split; [congruence|exact D].
Qed.

Lemma ginv_h_write_post d0 s i : GInv d0 s -> GInv d0 (h_write_post s i).
Proof.
  intros G. unfold h_write_post.
  change (fold_left _ (peer_ids s) s) with (fold_left (post_step i) (peer_ids s) s).
  destruct (post_fold i (peer_ids s) s (gi_peers _ _ G)) as [Hc Hp].
  set (s1 := fold_left (post_step i) (peer_ids s) s) in *.
  assert (G1 : GInv d0 s1) by (eapply ginv_core; eauto).
  destruct (all_true (s_done s1)); [|exact G1].
  destruct G1 as [Gp Gl Gw Gd Gf Go]. constructor; cbn; auto.
  unfold peers_ok. cbn. apply Forall_forall. intros q Hq. apply in_map_iff in Hq as (q0 & <- & Hq0).
  unfold peers_ok in Gp. rewrite Forall_forall in Gp. destruct (open_q q0); [apply PP_close|]; apply Gp; exact Hq0.
Qed.

(* ---- one event ---- *)
Lemma ginv_dispatch fixed d0 s code p a b c g bits : blocks_nodup s -> GInv d0 s ->
  GInv d0 (fst (dispatch fixed s code p a b c g bits)).
Proof.
  intros Hnd G. pose proof (gi_peers _ _ G) as Gp. unfold dispatch.
  destruct (code =? 1); [eapply ginv_core; [apply core_h_have|apply peers_ok_h_have; exact Gp|exact G]|].
  destruct (code =? 2); [eapply ginv_core; [apply core_h_bits|apply peers_ok_h_bits; exact Gp|exact G]|].
  destruct (code =? 3); [eapply ginv_core; [apply core_h_bits|apply peers_ok_h_bits; exact Gp|exact G]|].
  destruct (code =? 4); [eapply ginv_core; [apply core_h_allowed_fast|apply peers_ok_h_af; exact Gp|exact G]|].
  destruct (code =? 5); [eapply ginv_core; [apply core_h_unchoke|apply peers_ok_h_unchoke; exact Gp|exact G]|].
  destruct (code =? 6); [eapply ginv_core; [apply core_h_choke|apply peers_ok_h_choke; exact Gp|exact G]|].
  destruct (code =? 7); [eapply ginv_core; [apply core_h_reject|apply peers_ok_h_reject; exact Gp|exact G]|].
  destruct (code =? 8).
  { destruct (s_inflight s) eqn:E; [cbn; eapply ginv_core; [apply core_with_bad|exact Gp|exact G]|].
    apply ginv_h_piece; assumption. }
  destruct (code =? 9); [apply ginv_h_write_pre; exact G|].
  destruct (code =? 10); [eapply ginv_core; [apply core_h_snub|apply peers_ok_h_snub; exact Gp|exact G]|].
  destruct (code =? 11); [eapply ginv_core; [apply core_h_disconnect|apply peers_ok_close_t; exact Gp|exact G]|].
  destruct (code =? 12); [eapply ginv_core; [apply core_h_connect|apply peers_ok_h_connect; exact Gp|exact G]|].
  destruct (code =? 13); [eapply ginv_core; [apply core_h_ext|apply peers_ok_h_ext; exact Gp|exact G]|].
  exact G.
Qed.

Lemma ginv_lstep fixed d0 s ev bits asg : blocks_nodup s -> GInv d0 s -> GInv d0 (fst (lstep fixed s ev bits asg)).
Proof.
  intros Hnd G. unfold lstep.
  assert (G0 : GInv d0 (clear_frames s)) by (eapply ginv_core; [apply core_clear_frames|apply peers_ok_clear; apply (gi_peers _ _ G)|exact G]).
  assert (Hnd0 : blocks_nodup (clear_frames s)) by exact Hnd.
  set (s0 := clear_frames s) in *.
  destruct ev as [|code [|p [|a [|b [|c [|g [|x r]]]]]]]; try (cbn; eapply ginv_core; [apply core_with_bad|apply (gi_peers _ _ G0)|exact G0]).
  pose proof (ginv_dispatch fixed d0 s0 code p a b c g bits Hnd0 G0) as G1.
  destruct (dispatch fixed s0 code p a b c g bits) as [s1 tried]. cbn [fst] in G1.
  assert (G2 : GInv d0 (assign s1 (if s_completed s1 || s_stopped s1 then [] else tried) asg)).
  { eapply ginv_core; [apply core_assign|apply peers_ok_assign; apply (gi_peers _ _ G1)|exact G1]. }
  cbn [fst].
  assert (G3 : GInv d0 (if (code =? 9) && negb (z2b g) then match s_inflight s0 with Some (_, i, true) => h_write_post (assign s1 (if s_completed s1 || s_stopped s1 then [] else tried) asg) i | _ => assign s1 (if s_completed s1 || s_stopped s1 then [] else tried) asg end else assign s1 (if s_completed s1 || s_stopped s1 then [] else tried) asg)).
  { destruct ((code =? 9) && negb (z2b g)); [|exact G2].
    destruct (s_inflight s0) as [[[src i] [|]]|]; [apply ginv_h_write_post; exact G2|exact G2|exact G2]. }
  eapply ginv_core; [apply core_post_check|apply peers_ok_post_check; apply (gi_peers _ _ G3)|exact G3].
Qed.

(* ---- the block lists never change ---- *)
Lemma blocks_h_piece fixed s p i b n good : s_blocks (fst (h_piece fixed s p i b n good)) = s_blocks s.
Proof.
  unfold h_piece. destruct (q_closed _); [reflexivity|]. destruct (_ || _); [apply (core_blocks _ _ (core_close_t _ _ _))|].
  destruct (q_dl _) as [d|]; [|reflexivity]. destruct (negb _); [reflexivity|]. destruct (got_nb _ _ _) as [pd' g].
  destruct g; try reflexivity; try apply (core_blocks _ _ (core_close_t _ _ _)).
  all: destruct (pd_finished pd'); [cbn; apply blocks_upd_p|].
  all: destruct (_ || _); cbn [fst]; rewrite ?(core_blocks _ _ (core_do_request _ _)); apply blocks_upd_p.
Qed.
Lemma blocks_fold_upd f : forall l s, s_blocks (fold_left (fun s p => upd_p s p f) l s) = s_blocks s.
Proof. intros l s. apply (core_blocks _ _ (fold_upd_core f l s)). Qed.
Lemma blocks_h_write_pre s werr : s_blocks (fst (h_write_pre s werr)) = s_blocks s.
Proof.
  unfold h_write_pre. destruct (s_inflight s) as [[[src i] good]|]; [|reflexivity]. destruct (good && werr); [reflexivity|].
  destruct good; cbn [fst]; [rewrite blocks_fold_upd; reflexivity|].
  cbn [s_blocks]. unfold close_peer. rewrite blocks_upd_p. reflexivity.
Qed.
Lemma blocks_h_write_post s i : s_blocks (h_write_post s i) = s_blocks s.
Proof.
  unfold h_write_post. change (fold_left _ (peer_ids s) s) with (fold_left (post_step i) (peer_ids s) s).
  assert (H : forall l s0, s_blocks (fold_left (post_step i) l s0) = s_blocks s0).
  { induction l as [|x r IH]; intros s0; cbn [fold_left]; [reflexivity|]. rewrite IH. unfold post_step.
    destruct (open_q _); [|reflexivity]. destruct (nthb _ i); rewrite ?blocks_upd_p; apply (core_blocks _ _ (core_upd_interest _ _)). }
  destruct (all_true _); cbn; apply H.
Qed.
Lemma blocks_dispatch fixed s code p a b c g bits : s_blocks (fst (dispatch fixed s code p a b c g bits)) = s_blocks s.
Proof.
  unfold dispatch.
  destruct (code =? 1); [apply (core_blocks _ _ (core_h_have _ _ _ _))|].
  destruct (code =? 2); [apply (core_blocks _ _ (core_h_bits _ _ _ _ _))|].
  destruct (code =? 3); [apply (core_blocks _ _ (core_h_bits _ _ _ _ _))|].
  destruct (code =? 4); [apply (core_blocks _ _ (core_h_allowed_fast _ _ _ _))|].
  destruct (code =? 5); [apply (core_blocks _ _ (core_h_unchoke _ _))|].
  destruct (code =? 6); [apply (core_blocks _ _ (core_h_choke _ _))|].
  destruct (code =? 7); [apply (core_blocks _ _ (core_h_reject _ _ _ _ _ _))|].
  destruct (code =? 8); [destruct (s_inflight s); [reflexivity|apply blocks_h_piece]|].
  destruct (code =? 9); [apply blocks_h_write_pre|].
  destruct (code =? 10); [apply (core_blocks _ _ (core_h_snub _ _))|].
  destruct (code =? 11); [apply (core_blocks _ _ (core_h_disconnect _ _ _))|].
  destruct (code =? 12); [apply (core_blocks _ _ (core_h_connect _ _ _))|].
  destruct (code =? 13); [apply (core_blocks _ _ (core_h_ext _ _ _))|].
  reflexivity.
Qed.
Lemma blocks_lstep fixed s ev bits asg : s_blocks (fst (lstep fixed s ev bits asg)) = s_blocks s.
Proof.
  unfold lstep. destruct ev as [|code [|p [|a [|b [|c [|g [|x r]]]]]]]; try reflexivity.
  pose proof (blocks_dispatch fixed (clear_frames s) code p a b c g bits) as H.
  destruct (dispatch fixed (clear_frames s) code p a b c g bits) as [s1 tried]. cbn [fst] in *.
  assert (H2 : s_blocks (assign s1 (if s_completed s1 || s_stopped s1 then [] else tried) asg) = s_blocks s) by (rewrite (core_blocks _ _ (core_assign _ _ _)); exact H).
  rewrite (core_blocks _ _ (core_post_check _)).
  destruct ((code =? 9) && negb (z2b g)); [|exact H2]. destruct (s_inflight (clear_frames s)) as [[[src i] [|]]|]; rewrite ?blocks_h_write_post; exact H2.
Qed.

(* ---- every state an event history can reach (observed assignments and frame checks included) ---- *)
Inductive reach (fixed : bool) (s0 : lst) : lst -> Prop :=
| reach_init : reach fixed s0 s0
| reach_step s ev bits asg : reach fixed s0 s -> reach fixed s0 (fst (lstep fixed s ev bits asg))
| reach_bad s w : reach fixed s0 s -> reach fixed s0 (with_bad s w).

Definition init_ok (s0 : lst) : Prop :=
  blocks_nodup s0 /\ s_inflight s0 = None /\ s_written s0 = [] /\ length (s_writing s0) = length (s_done s0) /\
  Forall (fun b => b = false) (s_writing s0) /\ Forall (fun q => q_dl q = None) (s_peers s0).

Lemma ginv_init s0 : init_ok s0 -> GInv (s_done s0) s0.
Proof.
  intros (Hnd & Hi & Hw & Hl & Hwf & Hp). constructor; auto.
  - unfold peers_ok. eapply Forall_impl; [|exact Hp]. intros q Hq. split; [intros d E; congruence|auto].
  - rewrite Hw. intros i g h [].
  - rewrite Hi. intros; discriminate.
  - intros n Hn. exfalso. assert (nth n (s_writing s0) false = false).
    { apply (Forall_nth_default (fun b => b = false)); auto. }
    congruence.
Qed.

Theorem reach_inv fixed s0 s : init_ok s0 -> reach fixed s0 s -> GInv (s_done s0) s /\ s_blocks s = s_blocks s0.
Proof.
  intros Hi Hr. induction Hr as [|s ev bits asg Hr [IH1 IH2]|s w Hr [IH1 IH2]].
  - split; [apply ginv_init; exact Hi|reflexivity].
  - split; [apply ginv_lstep; [unfold blocks_nodup; rewrite IH2; apply Hi|exact IH1]|rewrite blocks_lstep; exact IH2].
  - split; [eapply ginv_core; [apply core_with_bad|apply (gi_peers _ _ IH1)|exact IH1]|exact IH2].
Qed.

(* ---- closed peers stay closed (and never download again: PP) ---- *)
Definition CP (q : lpeer) : Prop := q_closed q = true -> q_present q = true.
Definition peer_le (q q' : lpeer) : Prop :=
  (q_closed q = true -> q_closed q' = true) /\ (q_present q = true -> q_present q' = true).
Definition srel (s s' : lst) : Prop := forall r, CP (get_p s r) -> CP (get_p s' r) /\ peer_le (get_p s r) (get_p s' r).

Lemma srel_refl s : srel s s. Proof. intros r H. split; [exact H|split; auto]. Qed.
Lemma srel_trans a b c : srel a b -> srel b c -> srel a c.
Proof.
  intros H1 H2 r Hc. destruct (H1 r Hc) as (Hb & L1a & L1b). destruct (H2 r Hb) as (Hcc & L2a & L2b).
  split; [exact Hcc|split; auto].
Qed.

Lemma get_upd_list {A} (f : A -> A) d : forall l i r, nth r (upd_list l i f) d = if (Nat.eqb r i && Nat.ltb i (length l))%bool then f (nth r l d) else nth r l d.
Proof.
  induction l as [|x t IH]; intros i r; cbn.
  - rewrite Bool.andb_false_r. destruct i, r; reflexivity.
  - destruct i as [|k], r as [|m]; cbn; auto. rewrite IH. reflexivity.
Qed.

Definition stable (f : lpeer -> lpeer) : Prop := forall q, CP q -> CP (f q) /\ peer_le q (f q).
Lemma srel_upd s p f : stable f -> srel s (upd_p s p f).
Proof.
  intros Hf r Hc. unfold upd_p. destruct (p <? 0); [split; [exact Hc|split; auto]|]. unfold get_p in *. cbn.
  rewrite get_upd_list. destruct (_ && _)%bool; [apply Hf; exact Hc|split; [exact Hc|split; auto]].
Qed.
Lemma stable_same f : (forall q, q_closed (f q) = q_closed q /\ q_present (f q) = q_present q) -> stable f.
Proof. intros H q Hc. destruct (H q) as [A B]. unfold CP, peer_le. rewrite A, B. auto. Qed.
Lemma stable_close : stable close_q.
Proof.
  intros q Hc. unfold CP, peer_le, close_q in *. destruct (q_present q) eqn:E; cbn; [split; [auto|split; auto]|].
  rewrite E. split; [exact Hc|split; auto].
Qed.

Lemma srel_peers s s' : s_peers s' = s_peers s -> srel s s'.
Proof. intros E r Hc. unfold get_p in *. rewrite E. split; [exact Hc|split; auto]. Qed.
Lemma srel_map s f : f default_peer = default_peer -> stable f -> srel s (with_peers s (map f (s_peers s))).
Proof.
  intros Hd Hf r Hc. unfold get_p in *. cbn.
  assert (E : nth (Z.to_nat r) (map f (s_peers s)) default_peer = f (nth (Z.to_nat r) (s_peers s) default_peer)).
  { rewrite <- Hd at 1. apply map_nth. }
  rewrite E. apply Hf. exact Hc.
Qed.

Lemma stable_add_frames fs : stable (fun q => add_frames q fs).
Proof. apply stable_same. intros q. unfold add_frames. destruct (q_closed q) eqn:E; cbn; auto. Qed.
Lemma stable_set_dl_frames d fs : stable (fun q => add_frames (set_dl q d) fs).
Proof. apply stable_same. intros q. unfold add_frames. cbn. destruct (q_closed q) eqn:E; cbn; auto. Qed.

Lemma srel_do_request s p : srel s (do_request s p).
Proof.
  unfold do_request. destruct (q_dl (get_p s p)); [|apply srel_refl]. destruct (request_blocks _ _).
  apply srel_upd. apply stable_set_dl_frames.
Qed.
Lemma srel_interest s p : srel s (upd_interest s p).
Proof.
  unfold upd_interest. destruct (Bool.eqb _ _); [apply srel_refl|]. apply srel_upd. apply stable_same.
  intros q. unfold add_frames. cbn. destruct (q_closed q) eqn:E; cbn; auto.
Qed.
Lemma srel_close s p : srel s (close_peer s p).
Proof. apply srel_upd. apply stable_close. Qed.
Lemma srel_close_t fixed s p : srel s (fst (close_t fixed s p)).
Proof. apply srel_close. Qed.

Lemma srel_assign_go : forall asg s tried all p, srel s (assign_go s tried asg all p).
Proof.
  induction asg as [|a r IH]; intros s tried all p; cbn [assign_go]; [apply srel_refl|].
  eapply srel_trans; [|apply IH].
  destruct (q_dl (get_p s p)), (dec_asg a) as [[i af]|]; try (destruct (_ && _)); try apply srel_refl; try (apply srel_peers; reflexivity).
  eapply srel_trans; [|apply srel_do_request]. apply srel_upd. apply stable_same. intros q; auto.
Qed.

Lemma srel_assign s tried asg : srel s (assign s tried asg).
Proof. unfold assign. destruct (Nat.eqb _ _); [apply srel_assign_go|apply srel_peers; reflexivity]. Qed.
Lemma srel_post_check s : srel s (post_check s).
Proof. unfold post_check. destruct (first_such _ _); [apply srel_peers; reflexivity|]. destruct (first_such _ _); [apply srel_peers; reflexivity|apply srel_refl]. Qed.

Ltac srel_tac :=
  repeat first
    [ apply srel_refl
    | apply srel_close_t
    | apply srel_do_request
    | apply srel_interest
    | (apply srel_peers; reflexivity)
    | (apply srel_upd; apply stable_same; intros q; split; reflexivity)
    | (eapply srel_trans; [|apply srel_do_request])
    | (eapply srel_trans; [|apply srel_interest]) ].

Lemma srel_h_have fixed s p i : srel s (fst (h_have fixed s p i)).
Proof. unfold h_have. destruct (_ || _); cbn [fst]; srel_tac. Qed.
Lemma srel_h_bits fixed s p bits bad : srel s (fst (h_bits fixed s p bits bad)).
Proof. unfold h_bits. destruct bad; cbn [fst]; srel_tac. Qed.
Lemma srel_h_af fixed s p i : srel s (fst (h_allowed_fast fixed s p i)).
Proof. unfold h_allowed_fast. destruct (_ || _); cbn [fst]; srel_tac. Qed.
Lemma srel_h_unchoke s p : srel s (fst (h_unchoke s p)).
Proof. unfold h_unchoke. destruct (q_dl _) as [d|]; [destruct (l_af d)|]; cbn [fst]; srel_tac. Qed.
Lemma srel_h_choke s p : srel s (fst (h_choke s p)).
Proof.
  unfold h_choke. destruct (q_dl _) as [d|]; [destruct (l_af d)|]; cbn [fst]; srel_tac.
  eapply srel_trans; [|apply srel_upd; apply stable_same; intros q; split; reflexivity]. srel_tac.
Qed.
Lemma srel_h_reject fixed s p i b n : srel s (fst (h_reject fixed s p i b n)).
Proof.
  unfold h_reject. destruct (_ || _); [srel_tac|]. destruct (q_dl _) as [d|]; [|srel_tac]. destruct (negb _); [srel_tac|].
  destruct (rejected _ _ _) as [pd' [|]]; cbn [fst]; srel_tac.
Qed.
Lemma srel_h_snub s p : srel s (fst (h_snub s p)).
Proof. unfold h_snub. destruct (q_dl _); [destruct (q_choking _)|]; srel_tac. Qed.
Lemma srel_h_connect s p f : srel s (fst (h_connect s p f)).
Proof.
  unfold h_connect. destruct (q_present (get_p s p)) eqn:Ep; cbn [fst]; [srel_tac|].
  intros r Hc. unfold upd_p. destruct (p <? 0) eqn:E0; [split; [exact Hc|split; auto]|]. unfold get_p in *. cbn.
  rewrite get_upd_list. destruct (Nat.eqb (Z.to_nat r) (Z.to_nat p) && _)%bool eqn:Er; [|split; [exact Hc|split; auto]].
  apply andb_prop in Er as [Er _]. apply Nat.eqb_eq in Er. rewrite <- Er in Ep.
  unfold CP, peer_le in *; cbn. split; [intros; discriminate|]. split; [intros Hcl; rewrite (Hc Hcl) in Ep; discriminate|auto].
Qed.
Lemma srel_h_piece fixed s p i b n good : srel s (fst (h_piece fixed s p i b n good)).
Proof.
  unfold h_piece. destruct (q_closed _); [srel_tac|]. destruct (_ || _); [srel_tac|].
  destruct (q_dl _) as [d|]; [|srel_tac]. destruct (negb _); [srel_tac|]. destruct (got_nb _ _ _) as [pd' g].
  destruct g; try solve [srel_tac].
  all: destruct (pd_finished pd'); cbn [fst];
    [apply (srel_trans _ (upd_p s p (fun q => set_dl q None))); [apply srel_upd; apply stable_same; intros q; split; reflexivity|apply srel_peers; reflexivity]
    |destruct (_ || _); cbn [fst]; srel_tac].
Qed.
Lemma srel_fold f : stable f -> forall l s, srel s (fold_left (fun s p => upd_p s p f) l s).
Proof. intros Hf. induction l as [|x r IH]; intros s; cbn; [apply srel_refl|]. eapply srel_trans; [apply srel_upd; exact Hf|apply IH]. Qed.
Lemma srel_h_write_pre s werr : srel s (fst (h_write_pre s werr)).
Proof.
  unfold h_write_pre. destruct (s_inflight s) as [[[src i] good]|]; [|srel_tac]. destruct (good && werr).
  { cbn [fst]. apply (srel_trans _ (with_flags s (s_done s) (setb (s_writing s) (Z.to_nat i) false) None)); [apply srel_peers; reflexivity|].
    eapply srel_trans; [apply (srel_map _ close_q); [reflexivity|apply stable_close]|apply srel_peers; reflexivity]. }
  destruct good; cbn [fst].
  - eapply srel_trans; [|apply srel_fold].
    + apply srel_peers. reflexivity.
    + apply stable_same. intros q. destruct (q_dl q); [|auto]. unfold add_frames. cbn. destruct (q_closed q) eqn:E; cbn; auto.
  - eapply srel_trans; [|apply srel_peers; reflexivity].
    eapply srel_trans; [|apply srel_close]. apply srel_peers. reflexivity.
Qed.
Lemma srel_post_fold i : forall l s, srel s (fold_left (post_step i) l s).
Proof.
  induction l as [|x r IH]; intros s; cbn [fold_left]; [apply srel_refl|]. eapply srel_trans; [|apply IH].
  unfold post_step. destruct (open_q _); [|srel_tac]. destruct (nthb _ i); [srel_tac|].
  eapply srel_trans; [apply srel_interest|]. apply srel_upd. apply stable_add_frames.
Qed.
Lemma srel_h_write_post s i : srel s (h_write_post s i).
Proof.
  unfold h_write_post. change (fold_left _ (peer_ids s) s) with (fold_left (post_step i) (peer_ids s) s).
  set (s1 := fold_left (post_step i) (peer_ids s) s). assert (H1 : srel s s1) by apply srel_post_fold.
  destruct (all_true _); [|exact H1]. eapply srel_trans; [exact H1|].
  eapply srel_trans; [apply (srel_map s1 (fun q => if open_q q then close_q q else q))|apply srel_peers; reflexivity].
  - reflexivity.
  - intros q Hc. destruct (open_q q); [apply stable_close; exact Hc|split; [exact Hc|split; auto]].
Qed.
Lemma srel_clear s : srel s (clear_frames s).
Proof. apply (srel_map s). - reflexivity. - apply stable_same. intros q; auto. Qed.

Lemma srel_dispatch fixed s code p a b c g bits : srel s (fst (dispatch fixed s code p a b c g bits)).
Proof.
  unfold dispatch.
  destruct (code =? 1); [apply srel_h_have|]. destruct (code =? 2); [apply srel_h_bits|]. destruct (code =? 3); [apply srel_h_bits|].
  destruct (code =? 4); [apply srel_h_af|]. destruct (code =? 5); [apply srel_h_unchoke|]. destruct (code =? 6); [apply srel_h_choke|].
  destruct (code =? 7); [apply srel_h_reject|].
  destruct (code =? 8); [destruct (s_inflight s); [apply srel_peers; reflexivity|apply srel_h_piece]|].
  destruct (code =? 9); [apply srel_h_write_pre|]. destruct (code =? 10); [apply srel_h_snub|].
  destruct (code =? 11); [apply srel_close_t|]. destruct (code =? 12); [apply srel_h_connect|].
  destruct (code =? 13); [apply srel_upd; apply stable_same; intros q; destruct (q_reqq q <? 0); split; reflexivity|]. apply srel_refl.
Qed.
Lemma srel_lstep fixed s ev bits asg : srel s (fst (lstep fixed s ev bits asg)).
Proof.
  unfold lstep. eapply srel_trans; [apply srel_clear|].
  destruct ev as [|code [|p [|a [|b [|c [|g [|x r]]]]]]]; try (apply srel_peers; reflexivity).
  pose proof (srel_dispatch fixed (clear_frames s) code p a b c g bits) as H.
  destruct (dispatch fixed (clear_frames s) code p a b c g bits) as [s1 tried]. cbn [fst] in *.
  eapply srel_trans; [exact H|]. eapply srel_trans; [apply srel_assign|].
  eapply srel_trans; [|apply srel_post_check].
  destruct ((code =? 9) && negb (z2b g)); [|apply srel_refl]. destruct (s_inflight (clear_frames s)) as [[[src i] [|]]|]; [apply srel_h_write_post|apply srel_refl|apply srel_refl].
Qed.

(* ---- statements used by Properties/C01.v ---- *)
Theorem session_integrity fixed s0 s : init_ok s0 -> reach fixed s0 s ->
  (forall i g h, In (i, g, h) (s_written s) ->
     g = true /\ forallb snd h = true /\ covers (nth (Z.to_nat i) (s_blocks s0) []) h) /\
  (forall n, nth n (s_done s) false = true ->
     nth n (s_done s0) false = true \/ exists h, In (Z.of_nat n, true, h) (s_written s)) /\
  (forall n m, nth n (s_writing s) false = true -> nth m (s_writing s) false = true -> n = m) /\
  (forall r, q_closed (get_p s r) = true -> q_dl (get_p s r) = None).
Proof.
  intros Hi Hr. destruct (reach_inv fixed s0 s Hi Hr) as [[Gp Gl Gw Gd Gf Go] Hb].
  split; [|split; [|split]].
  - intros i g h Hin. destruct (Gw i g h Hin) as (A & B & C & _). rewrite <- Hb. auto.
  - exact Gd.
  - intros n m Hn Hm. destruct (Go n Hn) as (s1 & g1 & E1). destruct (Go m Hm) as (s2 & g2 & E2).
    rewrite E1 in E2. inversion E2. lia.
  - intros r Hc. destruct (PP_get s r Gp) as [_ B]. auto.
Qed.

Theorem closed_stays fixed s ev bits asg r : CP (get_p s r) -> q_closed (get_p s r) = true ->
  CP (get_p (fst (lstep fixed s ev bits asg)) r) /\ q_closed (get_p (fst (lstep fixed s ev bits asg)) r) = true.
Proof. intros Hc Hcl. destruct (srel_lstep fixed s ev bits asg r Hc) as (A & B & _). auto. Qed.

Lemma reach_cp fixed s0 s : (forall r, CP (get_p s0 r)) -> reach fixed s0 s -> forall r, CP (get_p s r).
Proof.
  intros H0 Hr. induction Hr as [|s ev bits asg Hr IH|s w Hr IH]; intros r; [apply H0| |exact (IH r)].
  destruct (srel_lstep fixed s ev bits asg r (IH r)) as [A _]. exact A.
Qed.

(* the write result of a buffer that fails the hash check: nothing is written or marked, the source
   is closed and banned *)
Lemma closed_after_close s p : q_present (get_p s p) = true -> 0 <= p -> q_closed (get_p (close_peer s p) p) = true.
Proof.
  intros Hp H0. unfold close_peer, upd_p. destruct (p <? 0) eqn:E; [lia|]. unfold get_p in *. cbn [s_peers with_peers]. rewrite get_upd_list.
  rewrite Nat.eqb_refl, Bool.andb_true_l. destruct (Nat.ltb (Z.to_nat p) (length (s_peers s))) eqn:El.
  - unfold close_q. rewrite Hp. reflexivity.
  - apply Nat.ltb_ge in El. rewrite nth_overflow in Hp by lia. discriminate.
Qed.

Lemma write_pre_bad s src i werr : s_inflight s = Some (src, i, false) ->
  let s' := fst (h_write_pre s werr) in
  s_written s' = s_written s /\ s_done s' = s_done s /\ In src (s_banned s') /\
  (q_present (get_p s src) = true -> 0 <= src -> q_closed (get_p s' src) = true /\ CP (get_p s' src)).
Proof.
  intros Hin. unfold h_write_pre. rewrite Hin. cbn [fst].
  set (s0 := with_flags s (s_done s) (setb (s_writing s) (Z.to_nat i) false) None).
  pose proof (core_close_peer s0 src) as Hc.
  assert (E1 : s_written (close_peer s0 src) = s_written s) by (unfold core in Hc; inversion Hc; reflexivity).
  assert (E2 : s_done (close_peer s0 src) = s_done s) by (unfold core in Hc; inversion Hc; reflexivity).
  assert (E3 : s_banned (close_peer s0 src) = s_banned s) by (unfold core in Hc; inversion Hc; reflexivity).
  cbn. rewrite E1, E2, E3. split; [reflexivity|split; [reflexivity|split]].
  - destruct (zmem src (s_banned s)) eqn:Ez; [apply zmem_true; exact Ez|apply in_or_app; right; left; reflexivity].
  - intros Hp H0. assert (Hcl : q_closed (get_p (close_peer s0 src) src) = true) by (apply closed_after_close; assumption).
    split; [exact Hcl|]. intros _. destruct (srel_close s0 src src) as (_ & _ & B); [intros _; exact Hp|]. apply B. exact Hp.
Qed.

Theorem bad_buffer_step fixed s src i p a b c g bits asg :
  s_inflight s = Some (src, i, false) -> q_present (get_p s src) = true -> 0 <= src ->
  let s' := fst (lstep fixed s [9; p; a; b; c; g] bits asg) in
  s_written s' = s_written s /\ s_done s' = s_done s /\ In src (s_banned s') /\ q_closed (get_p s' src) = true.
Proof.
  intros Hin Hpr Hsrc. cbn zeta. unfold lstep.
  change (dispatch fixed (clear_frames s) 9 p a b c g bits) with (h_write_pre (clear_frames s) (z2b g)).
  assert (Hin0 : s_inflight (clear_frames s) = Some (src, i, false)) by exact Hin.
  assert (Hpr0 : q_present (get_p (clear_frames s) src) = true).
  { unfold get_p in *. cbn. change default_peer with ((fun q => {| q_present := q_present q; q_closed := q_closed q; q_choking := q_choking q; q_fast := q_fast q; q_has := q_has q;
       q_af := q_af q; q_dl := q_dl q; q_int := q_int q; q_reqq := q_reqq q; q_frames := [] |}) default_peer) at 1. rewrite map_nth. exact Hpr. }
  destruct (write_pre_bad (clear_frames s) src i (z2b g) Hin0) as (A & B & C & D).
  destruct (D Hpr0 Hsrc) as [Dc Dp].
  destruct (h_write_pre (clear_frames s) (z2b g)) as [s1 tried]. cbn [fst] in *. rewrite Hin0.
  change (9 =? 9) with true. destruct (true && negb (z2b g)); cbn iota.
  all: set (X := assign s1 (if s_completed s1 || s_stopped s1 then [] else tried) asg).
  all: pose proof (core_assign s1 (if s_completed s1 || s_stopped s1 then [] else tried) asg) as Hc; fold X in Hc.
  all: pose proof (core_post_check X) as Hc2.
  all: assert (E1 : s_written (post_check X) = s_written s1) by (unfold core in Hc, Hc2; inversion Hc; inversion Hc2; congruence).
  all: assert (E2 : s_done (post_check X) = s_done s1) by (unfold core in Hc, Hc2; inversion Hc; inversion Hc2; congruence).
  all: assert (E3 : s_banned (post_check X) = s_banned s1) by (unfold core in Hc, Hc2; inversion Hc; inversion Hc2; congruence).
  all: cbn [fst]; rewrite E1, E2, E3.
  all: split; [exact A|split; [exact B|split; [exact C|]]].
  all: destruct (srel_assign s1 (if s_completed s1 || s_stopped s1 then [] else tried) asg src Dp) as (Dp2 & L & _); fold X in Dp2, L.
  all: destruct (srel_post_check X src Dp2) as (_ & L2 & _); apply L2; apply L; exact Dc.
Qed.

(* the blocks calculateBlocks produces have distinct begins (hypothesis [blocks_nodup] of [init_ok]) *)
Lemma calc_blocks_nodup bs l bl : 0 < bs -> BlocksProofs.wf_secs l -> l <> [] -> calc_blocks true bs l = Ok bl -> NoDup (map bbeg bl).
Proof.
  intros Hbs Hwf Hne E. destruct (BlocksProofs.blocks_tile bs l Hbs Hwf Hne) as (bl' & E' & _ & Ho & _).
  rewrite E in E'. inversion E'; subst. eapply ordered_begins_nodup; eauto.
Qed.

(* the states the case codec walks through are reachable states *)
Lemma step_case_reach fixed np P s0 s l s' o rest : reach fixed s0 s -> step_case fixed np P s l = Some (s', o, rest) -> reach fixed s0 s'.
Proof.
  intros Hr H. unfold step_case in H. destruct (rdn 6 l) as [[ev r1]|]; [|discriminate].
  destruct (rdn np r1) as [[bits r2]|]; [|discriminate]. destruct (rdn P r2) as [[asg r3]|]; [|discriminate].
  destruct (lstep fixed s ev (map z2b bits) asg) as [s1 o1] eqn:El.
  destruct (check_frames (s_peers s) (s_peers s1) 0 r3) as [bad r4]. inversion H; subst.
  assert (Hs1 : reach fixed s0 s1) by (replace s1 with (fst (lstep fixed s ev (map z2b bits) asg)) by (rewrite El; reflexivity); apply reach_step; exact Hr).
  destruct (bad =? 0); [exact Hs1|apply reach_bad; exact Hs1].
Qed.
Lemma last_state_reach fixed np P s0 : forall fuel s l, reach fixed s0 s -> reach fixed s0 (last_state fixed fuel np P s l).
Proof.
  induction fuel as [|f IH]; intros s l Hr; cbn [last_state]; [exact Hr|].
  assert (Hgen : reach fixed s0 match step_case fixed np P s l with Some (s', _, rest) => last_state fixed f np P s' rest | None => s end).
  { destruct (step_case fixed np P s l) as [[[s' o] rest]|] eqn:E; [|exact Hr]. apply IH. eapply step_case_reach; eauto. }
  destruct l as [|x r]; [exact Hgen|]. destruct x as [|px|px]; try exact Hgen.
  destruct px; try exact Hgen. destruct r as [|z r]; [exact Hgen|]. destruct r; [exact Hr|exact Hgen].
Qed.

(* ---- the validation flag is sticky: a history whose last state is unflagged was validated throughout ---- *)
Definition bad_le (s s' : lst) : Prop := s_bad s <> 0 -> s_bad s' <> 0.
Lemma bad_le_refl s : bad_le s s. Proof. intros H; exact H. Qed.
Lemma bad_le_trans a b c : bad_le a b -> bad_le b c -> bad_le a c. Proof. unfold bad_le; auto. Qed.
Lemma bad_le_eq s s' : s_bad s' = s_bad s -> bad_le s s'. Proof. unfold bad_le. intros ->. auto. Qed.
Lemma bad_le_with_bad s w : bad_le s (with_bad s w).
Proof. unfold bad_le, with_bad; cbn. destruct (s_bad s =? 0) eqn:E; [lia|auto]. Qed.
Lemma bad_upd_p s p f : s_bad (upd_p s p f) = s_bad s. Proof. unfold upd_p. destruct (p <? 0); reflexivity. Qed.
Lemma bad_do_request s p : s_bad (do_request s p) = s_bad s.
Proof. unfold do_request. destruct (q_dl _); [|reflexivity]. destruct (request_blocks _ _). apply bad_upd_p. Qed.
Lemma bad_interest s p : s_bad (upd_interest s p) = s_bad s.
Proof. unfold upd_interest. destruct (Bool.eqb _ _); [reflexivity|apply bad_upd_p]. Qed.
Lemma bad_close_t fixed s p : s_bad (fst (close_t fixed s p)) = s_bad s. Proof. apply bad_upd_p. Qed.
Lemma bad_fold f : forall l s, s_bad (fold_left (fun s p => upd_p s p f) l s) = s_bad s.
Proof. induction l as [|x r IH]; intros s; cbn; [reflexivity|]. rewrite IH. apply bad_upd_p. Qed.

Ltac bad_tac := repeat first [reflexivity | rewrite bad_do_request | rewrite bad_interest | rewrite bad_upd_p | rewrite bad_close_t].

Lemma bad_le_assign_go : forall asg s tried all p, bad_le s (assign_go s tried asg all p).
Proof.
  induction asg as [|a r IH]; intros s tried all p; cbn [assign_go]; [apply bad_le_refl|].
  eapply bad_le_trans; [|apply IH].
  destruct (q_dl (get_p s p)), (dec_asg a) as [[i af]|]; try (destruct (_ && _)); try apply bad_le_refl; try apply bad_le_with_bad.
  apply bad_le_eq. bad_tac.
Qed.
Lemma bad_le_dispatch fixed s code p a b c g bits : bad_le s (fst (dispatch fixed s code p a b c g bits)).
Proof.
  unfold dispatch.
  destruct (code =? 1); [apply bad_le_eq; unfold h_have; destruct (_ || _); cbn [fst]; bad_tac|].
  destruct (code =? 2); [apply bad_le_eq; unfold h_bits; destruct (z2b g); cbn [fst]; bad_tac|].
  destruct (code =? 3); [apply bad_le_eq; unfold h_bits; cbn [fst]; bad_tac|].
  destruct (code =? 4); [apply bad_le_eq; unfold h_allowed_fast; destruct (_ || _); cbn [fst]; bad_tac|].
  destruct (code =? 5); [apply bad_le_eq; unfold h_unchoke; destruct (q_dl _) as [d|]; [destruct (l_af d)|]; cbn [fst]; bad_tac|].
  destruct (code =? 6); [apply bad_le_eq; unfold h_choke; destruct (q_dl _) as [d|]; [destruct (l_af d)|]; cbn [fst]; bad_tac|].
  destruct (code =? 7).
  { apply bad_le_eq; unfold h_reject; destruct (_ || _); [bad_tac|]. destruct (q_dl _) as [d|]; [|reflexivity].
    destruct (negb _); [reflexivity|]. destruct (rejected _ _ _) as [pd' [|]]; cbn [fst]; bad_tac. }
  destruct (code =? 8).
  { destruct (s_inflight s); [apply bad_le_with_bad|]. apply bad_le_eq. unfold h_piece.
    destruct (q_closed _); [reflexivity|]. destruct (_ || _); [bad_tac|]. destruct (q_dl _) as [d|]; [|reflexivity].
    destruct (negb _); [reflexivity|]. destruct (got_nb _ _ _) as [pd' gg].
    destruct gg; try reflexivity; try (bad_tac; fail).
    all: destruct (pd_finished pd'); [cbn; bad_tac|destruct (_ || _); cbn [fst]; bad_tac]. }
  destruct (code =? 9).
  { unfold h_write_pre. destruct (s_inflight s) as [[[src i] good]|]; [|apply bad_le_with_bad]. apply bad_le_eq.
    destruct (good && z2b g); [reflexivity|]. destruct good; cbn [fst]; [rewrite bad_fold; reflexivity|]. cbn. unfold close_peer. bad_tac. }
  destruct (code =? 10); [apply bad_le_eq; unfold h_snub; destruct (q_dl _); [destruct (q_choking _)|]; reflexivity|].
  destruct (code =? 11); [apply bad_le_eq; unfold h_disconnect; bad_tac|].
  destruct (code =? 12); [unfold h_connect; destruct (q_present _); cbn [fst]; [apply bad_le_with_bad|apply bad_le_eq; bad_tac]|].
  destruct (code =? 13); [apply bad_le_eq; unfold h_ext; cbn [fst]; bad_tac|].
  apply bad_le_refl.
Qed.
Lemma bad_post_fold i : forall l s, s_bad (fold_left (post_step i) l s) = s_bad s.
Proof.
  induction l as [|x r IH]; intros s; cbn [fold_left]; [reflexivity|]. rewrite IH. unfold post_step.
  destruct (open_q _); [|reflexivity]. destruct (nthb _ i); bad_tac.
Qed.
Lemma bad_le_post_check s : bad_le s (post_check s).
Proof. unfold post_check. destruct (first_such _ _); [apply bad_le_with_bad|]. destruct (first_such _ _); [apply bad_le_with_bad|apply bad_le_refl]. Qed.

Theorem bad_sticky fixed s ev bits asg : s_bad (fst (lstep fixed s ev bits asg)) = 0 -> s_bad s = 0.
Proof.
  intros H. destruct (Z.eq_dec (s_bad s) 0) as [E|E]; [exact E|]. exfalso. revert H.
  assert (L : bad_le s (fst (lstep fixed s ev bits asg))); [|apply L; exact E].
  unfold lstep. apply (bad_le_trans _ (clear_frames s)); [apply bad_le_eq; reflexivity|].
  destruct ev as [|code [|p [|a [|b [|c [|g [|x r]]]]]]]; try apply bad_le_with_bad.
  pose proof (bad_le_dispatch fixed (clear_frames s) code p a b c g bits) as Hd.
  destruct (dispatch fixed (clear_frames s) code p a b c g bits) as [s1 tried]. cbn [fst] in *.
  eapply bad_le_trans; [exact Hd|].
  eapply bad_le_trans; [|apply bad_le_post_check].
  apply (bad_le_trans _ (assign s1 (if s_completed s1 || s_stopped s1 then [] else tried) asg)).
  { unfold assign. destruct (Nat.eqb _ _); [apply bad_le_assign_go|apply bad_le_with_bad]. }
  destruct ((code =? 9) && negb (z2b g)); [|apply bad_le_refl].
  destruct (s_inflight (clear_frames s)) as [[[src i] [|]]|]; try apply bad_le_refl.
  apply bad_le_eq. unfold h_write_post. change (fold_left _ (peer_ids ?s0) ?s0) with (fold_left (post_step i) (peer_ids s0) s0).
  destruct (all_true _); cbn; apply bad_post_fold.
Qed.

(* ---- C10 / C09 on the state after every validated handler ---- *)
Lemma first_such_none f l : first_such f l = None -> forall x, In x l -> f x = false.
Proof.
  unfold first_such. intros H x Hx. destruct (filter f l) eqn:E; [|discriminate].
  destruct (f x) eqn:Ef; [|reflexivity]. assert (In x (filter f l)) by (apply filter_In; auto). rewrite E in H0. destruct H0.
Qed.
Lemma with_bad_nonzero s w : w <> 0 -> s_bad (with_bad s w) <> 0.
Proof. intros Hw. unfold with_bad; cbn. destruct (s_bad s =? 0) eqn:E; [exact Hw|lia]. Qed.

Lemma elig_default s p : (length (s_peers s) <= Z.to_nat p)%nat -> elig s p = false.
Proof.
  intros H. unfold elig, get_p. rewrite nth_overflow by exact H. cbn. rewrite !Bool.andb_false_r. reflexivity.
Qed.
Lemma elig_norm s p : elig s p = elig s (Z.of_nat (Z.to_nat p)).
Proof. unfold elig, get_p. rewrite Nat2Z.id. reflexivity. Qed.

Theorem post_check_ok s : s_bad (post_check s) = 0 ->
  (forall p, elig s p = false) /\ (forall i, 0 <= i < np_of s -> over_dup s i = false).
Proof.
  unfold post_check. intros H.
  destruct (first_such (elig s) (peer_ids s)) as [p0|] eqn:E1; [exfalso; revert H; apply with_bad_nonzero; lia|].
  destruct (first_such (over_dup s) _) as [i0|] eqn:E2; [exfalso; revert H; apply with_bad_nonzero; lia|].
  split.
  - intros p. rewrite elig_norm. destruct (Nat.lt_ge_cases (Z.to_nat p) (length (s_peers s))) as [Hlt|Hge].
    + apply (first_such_none _ _ E1). unfold peer_ids. apply in_map. apply in_seq. lia.
    + apply elig_default. rewrite Nat2Z.id. exact Hge.
  - intros i Hi. apply (first_such_none _ _ E2). unfold np_of, zlen in Hi.
    replace i with (Z.of_nat (Z.to_nat i)) by lia. apply in_map. apply in_seq. lia.
Qed.

Lemma post_check_state s : s_bad (post_check s) = 0 -> post_check s = s.
Proof.
  unfold post_check. intros H.
  destruct (first_such (elig s) (peer_ids s)); [exfalso; revert H; apply with_bad_nonzero; lia|].
  destruct (first_such (over_dup s) _); [exfalso; revert H; apply with_bad_nonzero; lia|reflexivity].
Qed.

Theorem step_no_idle fixed s ev bits asg : let s' := fst (lstep fixed s ev bits asg) in
  s_bad s' = 0 -> (forall p, elig s' p = false) /\ (forall i, 0 <= i < np_of s' -> over_dup s' i = false).
Proof.
  cbn zeta. unfold lstep. destruct ev as [|code [|p [|a [|b [|c [|g [|x r]]]]]]];
    try (cbn [fst]; intros H; exfalso; revert H; apply with_bad_nonzero; lia).
  destruct (dispatch fixed (clear_frames s) code p a b c g bits) as [s1 tried]. cbn [fst].
  intros H. rewrite (post_check_state _ H). apply post_check_ok. exact H.
Qed.

#!/usr/bin/env python3
import sys, subprocess
f, idx = sys.argv[1], int(sys.argv[2])
line = open(f).read().splitlines()[idx]
p = line.split('|'); inp = list(map(int, p[1].split())); obs = list(map(int, p[2].split()))
exp = subprocess.run(['/verif/ocaml/build/modelrun'], input='|'.join(p[:3])+'\n', capture_output=True, text=True).stdout.split('|')[1].split()
exp = list(map(int, exp))
def rows(o):
    out=[]; i=0
    while i < len(o):
        if o[i] < 0: out.append(('MARK', o[i:])); break
        err=o[i]; n=o[i+1]; i+=2; ts=[tuple(o[i+6*k:i+6*k+6]) for k in range(n)]; i+=6*n
        nf=o[i]; free=o[i+1:i+1+nf]; i+=1+nf; same=o[i]; i+=1
        out.append((err, ts, free, same))
    return out
ops=[]; i=1
while i < len(inp):
    c=inp[i]; n={1:4,3:4,2:0,4:1,5:1,6:1,7:1,8:0,9:0}[c]; ops.append(tuple(inp[i:i+1+n])); i+=1+n
ro=rows(obs); re=rows(exp)
print('nports', inp[0]); print('init', ro[0])
names={1:'addfile',2:'garbage',3:'magnet',4:'remove',5:'start',6:'stop',7:'addtracker',8:'reopen',9:'compact'}
for k,op in enumerate(ops):
    a = ro[k+1] if k+1 < len(ro) else None; b = re[k+1] if k+1 < len(re) else None
    print(names[op[0]], op[1:], '\n   obs', a, '\n   exp', b if a!=b else 'same')

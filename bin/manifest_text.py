NOTES = ('All checks share bin/check. Fix commits in /repo are listed in known_findings.json as fixed entries. '
         'Hooks: none committed to /repo; harness code is injected with go build -overlay (tag verif).')
NA = {}
TEXT = {
 'C16': {
  'text': 'Theorems (Coq, all tier sizes, all success/failure patterns, all interleavings of concurrent announces as load/CAS steps): each announce goes to the member the two-line spec names, every member is reached within one cycle of failures, an answering member keeps being used, indexes stay in range. Tied to internal/tracker/tier.go by running the real Tier under scripted members on generated sequential and concurrent histories and comparing contacted members with the extracted model; proved monitor on the observed members.',
  'note': 'Trusted: Coq kernel, extraction, Go harness, linearizability of sync/atomic. Modelled, not verified: tier.go itself (hand model + differential tie). Announcer retry/back-off and tracker reply parsing parts of C16 are covered only where the kinds listed in the evidence say so.',
  'technique': 'machine-checked proof (Coq) over an executable model + differential correspondence with the Go code',
 },
}

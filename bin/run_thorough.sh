#!/bin/bash
# run every claimed check in the thorough tier, two at a time (developer helper; takes hours)
cd /verif
ids=$(python3 -c "import json;print(' '.join(c['property_id'] for c in json.load(open('MANIFEST.json'))['checks']))")
echo $ids | tr ' ' '\n' | xargs -P ${1:-2} -I{} sh -c "/usr/bin/time -f '{} %es' bin/check {} thorough > .work/thorough_{}.log 2>&1; echo {} rc=\$? \$(grep -v KNOWN .work/thorough_{}.log | tail -2 | cut -c1-200 | tr '\n' ' ')"

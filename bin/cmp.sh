#!/bin/bash
# cmp.sh <kind> <seed> <count> [tier] : developer helper, run harness + model, show disagreements
cd /verif/.work
./rainverif $1 $2 $3 ${4:-quick} 2>/dev/null > cases_$1.txt
cut -d'|' -f1-3 cases_$1.txt | (ulimit -s unlimited 2>/dev/null; /verif/ocaml/build/modelrun) > model_$1.txt
python3 - $1 <<'PY'
import sys
k=sys.argv[1]
cs=open(f'/verif/.work/cases_{k}.txt').read().splitlines(); ms=open(f'/verif/.work/model_{k}.txt').read().splitlines()
bad=0
for i,(c,m) in enumerate(zip(cs,ms)):
    parts=c.split('|'); obs=parts[2].split(); exp=m.split('|')[1].split()
    if obs!=exp:
        bad+=1
        if bad<=3:
            j=next((x for x in range(min(len(obs),len(exp))) if obs[x]!=exp[x]), min(len(obs),len(exp)))
            print(f'case {i}: first diff at {j}: obs={obs[max(0,j-5):j+8]} exp={exp[max(0,j-5):j+8]} len obs={len(obs)} exp={len(exp)} note={parts[3] if len(parts)>3 else ""}')
print('cases',len(cs),'disagree',bad)
PY

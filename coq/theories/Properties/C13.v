(* C13 — magnet metadata: safe assembly of announced metadata; (magnet round trip: see note) *)
From RainV Require Import Lib InfoDl InfoDlProofs.

(* whatever metadata blocks a peer sends -- any index, any size, duplicates, unrequested -- the
   assembly buffer keeps exactly the announced size and an accepted block lies inside it *)
Theorem C13_got_block_safe : forall size d index data, IInv size d ->
  IInv size (fst (got_block d index data)) /\
  (snd (got_block d index data) = IOk -> 0 <= index * mblock /\ index * mblock + zlen data <= size).
Proof. exact got_block_safe. Qed.
Print Assumptions C13_got_block_safe.

Theorem C13_new_downloader_well_formed : forall size, 0 <= size -> IInv size (idl_new size).
Proof. exact new_inv. Qed.
Print Assumptions C13_new_downloader_well_formed.

Theorem C13_request_blocks_preserve : forall size fuel d q acc, IInv size d ->
  IInv size (fst (request_blocks fuel d q acc)).
Proof. exact request_blocks_inv. Qed.
Print Assumptions C13_request_blocks_preserve.

(* ---- the event loop during the metadata phase (MetaSess.v) ---- *)
From RainV Require Import MetaSess MetaSessProofs.

(* for every history of extension handshakes (any announced size, with or without ut_metadata),
   metadata data/reject/request messages (any index, length, content, total_size, duplicates,
   unrequested), snub timers, disconnects, connects and ordinary messages sent before the metadata
   is known, from any number of honest and lying peers, and every observed choice of which
   eligible peer gets an info downloader:
   - metadata is adopted only when the announced size is the size of the true info dictionary and
     the last bytes copied into every 16 KiB block were the true bytes (so the adopted bytes are the
     dictionary whose SHA-1 is the info-hash of the link);
   - an info downloader, whose creation allocates the announced size, only ever exists for an
     announced size in (0, MaxMetadataSize] *)
Theorem C13_adoption_sound_and_size_capped : forall truesize mx par q np P s, mreach (minit truesize mx par q np P) s ->
  (t_adopted s = true -> exists recv, t_adopted_from s = Some (truesize, recv) /\ forallb (fun x => x =? 1) recv = true) /\
  (forall p d, m_idl (mget s p) = Some d -> 0 < d_size d <= mx).
Proof. exact adoption_sound. Qed.
Print Assumptions C13_adoption_sound_and_size_capped.

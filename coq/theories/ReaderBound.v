(* Whatever bytes a peer sends, every message the reader model delivers respects the size bounds:
   a bitfield has at most maxMsgSize bytes, a piece message at most 16 KiB of data, a request asks
   for at most 16 KiB.  (The model rejects a length prefix above maxMsgSize before reading -- and
   the Go reader before allocating -- anything of that message.) *)
From RainV Require Import Lib Bencode Wire.
From Coq Require Import ZifyBool.

Definition rwf (maxmsg : Z) (m : msg) : Prop :=
  match m with
  | Bitfield d => zlen d <= maxmsg
  | PieceM _ _ d => zlen d <= 16384
  | Request _ _ l => l <= 16384
  | _ => True
  end.

Lemma take_len n s p r : take n s = Some (p, r) -> zlen p = n.
Proof.
  unfold take. destruct ((0 <=? n) && (n <=? zlen s)) eqn:E; [|discriminate]. intros H; inversion H; subst.
  unfold zlen in *. rewrite firstn_length. lia.
Qed.

Lemma unmarshal_ext_rwf maxmsg p m : unmarshal_ext p = Some m -> rwf maxmsg m.
Proof.
  unfold unmarshal_ext. destruct p as [|extid payload]; [discriminate|].
  destruct (decode payload) as [[[| | |d] rest]|]; try discriminate.
  destruct (extid =? 0).
  { destruct (match dict_get k_m d with None => Some [] | Some (BDict md) => get_m md | Some _ => None end); [|discriminate].
    destruct (get_str k_v d); [|discriminate]. destruct (get_str k_yourip d); [|discriminate].
    destruct (get_int k_metadata_size d); [|discriminate]. destruct (get_int k_reqq d); [|discriminate].
    intros H; inversion H; exact I. }
  destruct (extid =? 1).
  { destruct (get_int k_msg_type d); [|discriminate]. destruct (get_int k_piece d); [|discriminate].
    destruct (get_int k_total_size d); [|discriminate]. destruct (_ && _); [|discriminate]. intros H; inversion H; exact I. }
  destruct (extid =? 2); [|discriminate].
  destruct (get_str k_added d); [|discriminate]. destruct (get_str k_dropped d); [|discriminate]. intros H; inversion H; exact I.
Qed.

Ltac emit_tac IH :=
  match goal with
  | |- context [parse ?f ?mx ?rest] =>
      let E := fresh "E" in let ms := fresh "ms" in let e := fresh "e" in
      pose proof (IH rest) as E; destruct (parse f mx rest) as [ms e]; cbn [fst] in *; try constructor; auto
  end.

Theorem parse_wf : forall fuel maxmsg s, Forall (rwf maxmsg) (fst (parse fuel maxmsg s)).
Proof.
  induction fuel as [|f IH]; intros maxmsg s; cbn [parse]; [constructor|].
  destruct s as [|a [|b [|c [|d r]]]]; try constructor.
  destruct (rd_be32 a b c d =? 0); [apply IH|].
  destruct r as [|id r1]; [constructor|].
  destruct (rd_be32 a b c d - 1 >? maxmsg) eqn:Emax; [constructor|].
  set (len := rd_be32 a b c d - 1) in *.
  assert (Hfix : forall n k, (forall p m, k p = Some m -> rwf maxmsg m) ->
    Forall (rwf maxmsg) (fst (match take n r1 with
                              | Some (p, rest) => match k p with
                                                  | Some m => let '(ms, e) := parse f maxmsg rest in (m :: ms, e)
                                                  | None => ([], EndError 2) end
                              | None => ([], EndShort) end))).
  { intros n k Hk. destruct (take n r1) as [[p rest]|]; [|constructor]. destruct (k p) as [m|] eqn:Ek; [|constructor].
    pose proof (IH maxmsg rest) as E. destruct (parse f maxmsg rest) as [ms e]. cbn [fst] in *. constructor; [eapply Hk; eauto|exact E]. }
  assert (Hemit : forall m, rwf maxmsg m -> Forall (rwf maxmsg) (fst (let '(ms, e) := parse f maxmsg r1 in (m :: ms, e)))).
  { intros m Hm. pose proof (IH maxmsg r1) as E. destruct (parse f maxmsg r1) as [ms e]. cbn [fst] in *. constructor; auto. }
  assert (Hdef : Forall (rwf maxmsg) (fst (match take len r1 with Some (_, rest) => parse f maxmsg rest | None => ([], EndShort) end))).
  { destruct (take len r1) as [[p rest]|]; [apply IH|constructor]. }
  destruct id as [|p|p]; [apply Hemit; exact I| |exact Hdef].
  do 5 (try destruct p as [p|p|]); try exact Hdef; try (apply Hemit; exact I).
  all: try (apply Hfix; intros q m Hq; repeat (destruct q as [|? q]; try discriminate); inversion Hq; subst; exact I).
  - (* piece *)
    destruct (take 8 r1) as [[p8 r2]|] eqn:E8; [|constructor].
    do 8 (destruct p8 as [|? p8]; [constructor|]). destruct p8; [|constructor].
    destruct ((len - 8) mod two32 >? 16384) eqn:Ed; [constructor|].
    destruct (take ((len - 8) mod two32) r2) as [[pd rest]|] eqn:Et; [|constructor].
    pose proof (IH maxmsg rest) as E. destruct (parse f maxmsg rest) as [ms e]. cbn [fst] in *. constructor; [|exact E].
    cbn. rewrite (take_len _ _ _ _ Et). lia.
  - (* bitfield *)
    destruct (take len r1) as [[pb rest]|] eqn:Et; [|constructor].
    pose proof (IH maxmsg rest) as E. destruct (parse f maxmsg rest) as [ms e]. cbn [fst] in *. constructor; [|exact E].
    cbn. rewrite (take_len _ _ _ _ Et). lia.
  - (* request *)
    apply Hfix. intros q m Hq. do 12 (destruct q as [|? q]; [discriminate|]). destruct q; [|discriminate].
    cbn in Hq. match type of Hq with (if ?c then _ else _) = _ => destruct c eqn:El end; inversion Hq; subst. cbn. lia.
  - (* extension *)
    destruct (take len r1) as [[pe rest]|] eqn:Et; [|constructor].
    destruct (unmarshal_ext pe) as [m|] eqn:Eu; [|constructor].
    pose proof (IH maxmsg rest) as E. destruct (parse f maxmsg rest) as [ms e]. cbn [fst] in *. constructor; [|exact E].
    eapply unmarshal_ext_rwf; eauto.
Qed.

Theorem parse_all_wf maxmsg s : Forall (rwf maxmsg) (fst (parse_all maxmsg s)).
Proof. apply parse_wf. Qed.

(* C17 — configured resource limits hold and reservations balance (manager-level part). *)
From RainV Require Import Lib Ram RamProofs Cache CacheProofs Stree AddrList AddrListProofs.

(* piece-buffer memory: for every interleaving of request / notify / cancel / release the reserved
   amount stays within [0, limit], equals the sum of held reservations, and the object count
   equals their number *)
Theorem C17_ram_balance : forall fixed lim ops s, 0 <= lim -> rrun fixed (ram_init lim) ops = Some s -> RInv s.
Proof. exact ram_balance. Qed.
Print Assumptions C17_ram_balance.

Theorem C17_request_never_stuck : forall s id key n closed, rstep true s (RReq id key n closed Stuck) = None.
Proof. exact request_never_stuck. Qed.
Print Assumptions C17_request_never_stuck.

Theorem C17_request_stuck_on_pinned_code : exists s id key n, rstep false s (RReq id key n true Stuck) = Some s.
Proof. exact request_stuck_pinned. Qed.
Print Assumptions C17_request_stuck_on_pinned_code.

(* read cache size *)
Theorem C17_cache_bounded : forall mx, 0 <= mx -> forall ops : list (Z * Z), Forall (fun o => 0 <= snd o) ops ->
  let c := fold_left (fun c o => fst (cache_get c (fst o) (snd o))) ops (cache_init mx) in
  CInv c /\ 0 <= ctotal c <= mx.
Proof. exact cache_bounded. Qed.
Print Assumptions C17_cache_bounded.

(* stored peer addresses *)
Theorem C17_addrlist_bounded : forall c s src addrs, 0 <= maxItems c ->
  zlen (items (push c s src addrs)) <= maxItems c.
Proof. exact push_bounded. Qed.
Print Assumptions C17_addrlist_bounded.

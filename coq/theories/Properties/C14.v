(* C14 — session registry and resume data consistent across add / remove / restart. *)
From RainV Require Import Lib Registry RegistryProofs Resume ResumeProofs.

(* for every history of adds (torrent file or magnet link, with an id chosen by the session or a given,
   possibly duplicate id, incl. failing adds and adds when no port is free), removes, starts, stops,
   added trackers, restarts of the session and compactions of the database: torrent numbers (ids) are
   unique, no two live torrents share a listening port, every port of the configured range is either
   free or owned by exactly one torrent, and a free port is owned by nobody *)
Theorem C14_registry_invariants_all_histories : forall n ops, 0 <= n -> RInv (fold_left rstep ops (reg_init n)).
Proof. exact registry_inv. Qed.
Print Assumptions C14_registry_invariants_all_histories.

(* a restart brings back exactly the same torrents (number, catalogue entry = info-hash, port, started
   flag, metadata, trackers); compaction keeps exactly the torrents that have their metadata *)
Theorem C14_restart_keeps_every_torrent : forall s, g_tors (r_reopen s) = g_tors s.
Proof. exact reopen_keeps_torrents. Qed.
Print Assumptions C14_restart_keeps_every_torrent.
Theorem C14_compaction_keeps_torrents_with_metadata : forall s, g_tors (r_compact s) = filter r_hasinfo (g_tors s).
Proof. exact compact_keeps_torrents_with_metadata. Qed.
Print Assumptions C14_compaction_keeps_torrents_with_metadata.

(* scalar resume fields read back as written, for every value *)
Theorem C14_int_field_roundtrip : forall z, parse_int (fmt_int z) = Some z.
Proof. exact int_field_roundtrip. Qed.
Print Assumptions C14_int_field_roundtrip.
Theorem C14_bool_field_roundtrip : forall b, parse_bool (fmt_bool b) = Some b.
Proof. exact bool_field_roundtrip. Qed.
Print Assumptions C14_bool_field_roundtrip.

(* C03 — upload integrity (read path): served bytes are exact whatever the read cache does. *)
From RainV Require Import Lib Geometry SectionIO Cache CacheProofs Wire WireProofs Admission AdmissionProofs.
From RainV Require Wire WireProofs.

(* for every piece content, every read-cache block size rs > 0 and every request position
   inside the piece -- aligned or not to 16 KiB blocks or to rs -- the bytes handed to the
   writer are exactly bytes [off, off+n) of the piece *)
Theorem C03_cached_read_exact : forall c plen rs off n,
  zlen c = plen -> 0 < rs -> 0 <= off -> 0 <= n -> off + n <= plen ->
  cached_read true c plen rs off n = slice c off n.
Proof. exact cached_read_exact. Qed.
Print Assumptions C03_cached_read_exact.

Theorem C03_cached_read_refuted_on_pinned_code : exists c plen rs off n,
  zlen c = plen /\ 0 < rs /\ 0 <= off /\ 0 <= n /\ off + n <= plen /\
  cached_read false c plen rs off n <> slice c off n.
Proof. exact cached_read_refuted_pinned. Qed.
Print Assumptions C03_cached_read_refuted_on_pinned_code.

(* the piece message then carries exactly those n bytes after index and begin *)
Theorem C03_piece_frame_exact : forall c plen rs i b n,
  zlen c = plen -> 0 < rs -> 0 <= b -> 0 <= n -> b + n <= plen ->
  body (PieceM i b (cached_read true c plen rs b n)) = be32 i ++ be32 b ++ slice c b n.
Proof. intros. cbn [body]. rewrite cached_read_exact by assumption. reflexivity. Qed.
Print Assumptions C03_piece_frame_exact.

(* the read cache never holds more than its configured size, for every sequence of Get calls *)
Theorem C03_cache_bounded : forall mx, 0 <= mx -> forall ops : list (Z * Z), Forall (fun o => 0 <= snd o) ops ->
  let c := fold_left (fun c o => fst (cache_get c (fst o) (snd o))) ops (cache_init mx) in
  CInv c /\ 0 <= ctotal c <= mx.
Proof. exact cache_bounded. Qed.
Print Assumptions C03_cache_bounded.

(* request admission: data only for in-bounds, non-empty, <= 16 KiB requests of pieces the client
   has; while choking only for allowed-fast pieces of fast-extension peers *)
Theorem C03_served_only_if : forall PL total np done fast idx b len cc af,
  serve PL total np done fast idx b len cc af = DPiece ->
  idx < np /\ done idx = true /\ 0 < len <= 16384 /\ b + len <= piece_len PL total np idx /\
  (cc = false \/ (fast = true /\ af = true)) \/ len < 0.
Proof. exact served_only_if. Qed.
Print Assumptions C03_served_only_if.

Theorem C03_no_wraparound : forall begin len plen, 0 <= begin < two32a -> 0 <= len < two32a -> 0 <= plen < two32a ->
  valid_request begin len plen = true -> begin < plen /\ begin + len <= plen /\ len <> 0.
Proof. exact no_wraparound. Qed.
Print Assumptions C03_no_wraparound.

(* the peer writer's queue: when a choke is queued, every piece message still waiting in the queue is
   dropped (none is sent after the client started choking), for every queue content; and the number of
   waiting pieces never exceeds the configured bound, for every sequence of operations *)
Theorem C03_choke_flushes_queued_pieces : forall maxq fast q,
  existsb Wire.is_piece (Wire.wq_op maxq fast q Wire.Choke) = false.
Proof. exact WireProofs.choke_flushes_queued_pieces. Qed.
Print Assumptions C03_choke_flushes_queued_pieces.
Theorem C03_writer_queue_bounded : forall maxq fast ms, 0 <= maxq ->
  Wire.count_pieces (fold_left (Wire.wq_op maxq fast) ms []) <= maxq.
Proof. exact WireProofs.writer_queue_bounded. Qed.
Print Assumptions C03_writer_queue_bounded.

(* the key under which a block sits in the shared read cache is fixed width (id, piece index, block
   number): different triples never share a key, so a request is never answered from the cached block
   of another piece or another torrent (behaviour tied by kind 305) *)
From RainV Require Import Wire WireProofs CacheKey.
Theorem C03_cache_key_injective : forall id id' p p' b b', length id = length id' -> u32 p -> u32 p' -> u32 b -> u32 b' ->
  cache_key id p b = cache_key id' p' b' -> id = id' /\ p = p' /\ b = b'.
Proof. exact cache_key_injective. Qed.
Print Assumptions C03_cache_key_injective.

(* Model of the RequestMessage branch of torrent.handlePeerMessage together with the reader's
   block-size check: what the client does with a request (index, begin, length).  Definitions only. *)
From RainV Require Import Lib.

Inductive decision := DNothing | DPiece | DReject | DClose.

Definition two32a : Z := 4294967296.

Definition piece_len (PL total np i : Z) : Z := if i =? np - 1 then total - PL * (np - 1) else PL.

(* validPieceRequest: computed in uint64, so no wrap for 32-bit operands *)
Definition valid_request (begin length plen : Z) : bool := negb (length =? 0) && (begin + length <=? plen).

Definition serve (PL total np : Z) (done : Z -> bool) (fast : bool)
                 (idx begin length : Z) (client_choking in_af : bool) : decision :=
  if length >? 16384 then DClose                                  (* peerreader: blockSizeError *)
  else if idx >=? np then DClose
  else if negb (valid_request begin length (piece_len PL total np idx)) then DClose
  else if negb (done idx) then DReject
  else if client_choking then
         (if fast then (if in_af then DPiece else DReject) else DNothing)
       else DPiece.

Definition dcode (d : decision) : Z := match d with DNothing => 0 | DPiece => 1 | DReject => 2 | DClose => 3 end.

(* kind 303 codec: see harness/root/verifhook/c03_admission.go *)
Fixpoint served_mem (k : Z * Z * Z) (l : list (Z * Z * Z)) : bool :=
  match l with
  | [] => false
  | (a, b, c) :: r => let '(x, y, z) := k in ((a =? x) && (b =? y) && (c =? z)) || served_mem k r
  end.

(* the writer answers a request it has already served on this connection with a reject *)
Fixpoint run_adm_go (PL total np : Z) (done : Z -> bool) (fast : bool) (closed : bool) (served : list (Z * Z * Z))
                    (n : nat) (l : list Z) : list Z :=
  match n, l with
  | S k, idx :: b :: len :: cc :: af :: r =>
      if closed then 3 :: run_adm_go PL total np done fast true served k r
      else let d := serve PL total np done fast idx b len (z2b cc) (z2b af) in
           match d with
           | DPiece => if served_mem (idx, b, len) served
                       then 2 :: run_adm_go PL total np done fast false served k r
                       else 1 :: run_adm_go PL total np done fast false ((idx, b, len) :: served) k r
           | DClose => 3 :: run_adm_go PL total np done fast true served k r
           | _ => dcode d :: run_adm_go PL total np done fast false served k r
           end
  | _, _ => []
  end.

Definition run_admission (inp : list Z) : list Z :=
  match inp with
  | PL :: total :: np :: fast :: r =>
      match rdn (Z.to_nat np) r with
      | Some (flags, nreq :: reqs) =>
          run_adm_go PL total np (fun i => z2b (nth (Z.to_nat i) flags 0)) (z2b fast) false [] (Z.to_nat nreq) reqs
      | _ => [-779]
      end
  | _ => [-779]
  end.

(* monitor on the observed decisions alone: data is served only for in-bounds, non-empty, <= 16 KiB
   requests of pieces the client has, with exact bytes (code 1, never 4), and a choked peer gets
   data only for allowed-fast pieces *)
Fixpoint mon_adm_go (PL total np : Z) (done : Z -> bool) (n : nat) (l obs : list Z) : bool :=
  match n, l, obs with
  | S k, idx :: b :: len :: cc :: af :: r, o :: obs' =>
      (negb (o =? 4)) && (negb (o =? 5)) && (negb (o =? -777)) &&
      (if o =? 1 then (0 <=? idx) && (idx <? np) && done idx && (0 <? len) && (len <=? 16384) &&
                      (b + len <=? piece_len PL total np idx) && (negb (z2b cc) || z2b af)
       else true) && mon_adm_go PL total np done k r obs'
  | O, _, [] => true
  | _, _, _ => false
  end.

Definition mon_admission (inp obs : list Z) : bool :=
  match inp with
  | PL :: total :: np :: fast :: r =>
      match rdn (Z.to_nat np) r with
      | Some (flags, nreq :: reqs) =>
          mon_adm_go PL total np (fun i => z2b (nth (Z.to_nat i) flags 0)) (Z.to_nat nreq) reqs obs
      | _ => false
      end
  | _ => false
  end.

(* C17 — configured resource limits hold and reservations balance (manager-level part). *)
From RainV Require Import Lib Ram RamProofs Cache CacheProofs Stree AddrList AddrListProofs.
From RainV Require ConnLimit ConnLimitProofs.

(* piece-buffer memory: for every interleaving of request / notify / cancel / release the reserved
   amount stays within [0, limit], equals the sum of held reservations, and the object count
   equals their number *)
Theorem C17_ram_balance : forall fixed lim ops s, 0 <= lim -> rrun fixed (ram_init lim) ops = Some s -> RInv s.
Proof. exact ram_balance. Qed.
Print Assumptions C17_ram_balance.

Theorem C17_request_never_stuck : forall s id key n closed, rstep true s (RReq id key n closed Stuck) = None.
Proof. exact request_never_stuck. Qed.
Print Assumptions C17_request_never_stuck.

Theorem C17_request_stuck_on_pinned_code : exists s id key n, rstep false s (RReq id key n true Stuck) = Some s.
Proof. exact request_stuck_pinned. Qed.
Print Assumptions C17_request_stuck_on_pinned_code.

(* read cache size *)
Theorem C17_cache_bounded : forall mx, 0 <= mx -> forall ops : list (Z * Z), Forall (fun o => 0 <= snd o) ops ->
  let c := fold_left (fun c o => fst (cache_get c (fst o) (snd o))) ops (cache_init mx) in
  CInv c /\ 0 <= ctotal c <= mx.
Proof. exact cache_bounded. Qed.
Print Assumptions C17_cache_bounded.

(* stored peer addresses *)
Theorem C17_addrlist_bounded : forall c s src addrs, 0 <= maxItems c ->
  zlen (items (push c s src addrs)) <= maxItems c.
Proof. exact push_bounded. Qed.
Print Assumptions C17_addrlist_bounded.

(* connections: for every history of address batches, handshake results, incoming connections, disconnects,
   stops and starts, outgoing connections (handshaking + established) never exceed MaxPeerDial and incoming
   ones never exceed MaxPeerAccept; a stop leaves none behind *)
Theorem C17_connection_limits : forall md ma evs, 0 <= md -> 0 <= ma ->
  Forall (fun e => match e with ConnLimit.CAdd n => 0 <= n | _ => True end) evs ->
  ConnLimitProofs.CInv md ma (fold_left (ConnLimit.cstep md ma) evs ConnLimit.cl_init).
Proof. exact ConnLimitProofs.connection_limits_hold. Qed.
Print Assumptions C17_connection_limits.
Theorem C17_stop_leaves_no_connection : forall md ma s,
  ConnLimit.obs_cl (ConnLimit.cstep md ma s ConnLimit.CStop) = [0; 0; 0; 0; 0].
Proof. exact ConnLimitProofs.stop_clears. Qed.
Print Assumptions C17_stop_leaves_no_connection.

(* outstanding block requests per peer (piecedownloader, kind 102): for every history of
   RequestBlocks(q) with q <= Q, received blocks (valid, duplicate, unrequested, garbage), chokes and
   rejects, at most Q requests are in flight *)
From RainV Require Import PieceDl PieceDlProofs.
Theorem C17_request_pipeline_bounded : forall Q blocks plen af fast ops, 0 <= Q ->
  Forall (fun o => match o with PReq q => q <= Q | _ => True end) ops ->
  zlen (pd_pending (fold_left pd_apply ops (pdl_new blocks plen af fast))) <= Q.
Proof. exact pipeline_bounded. Qed.
Print Assumptions C17_request_pipeline_bounded.

(* queued upload requests per peer (peerwriter, kind 1105): for every sequence of piece messages,
   chokes, cancels (early and late) and other messages the queue never holds more than the configured
   number of piece messages *)
From RainV Require Wire WireProofs.
Theorem C17_upload_queue_bounded : forall maxq fast ms, 0 <= maxq ->
  Wire.count_pieces (fold_left (Wire.wq_op maxq fast) ms []) <= maxq.
Proof. exact WireProofs.writer_queue_bounded. Qed.
Print Assumptions C17_upload_queue_bounded.

//go:build verif

package verifhook

import (
	"io"
	"math/rand"
	"net"
	"sync"
	"time"

	"github.com/cenkalti/rain/v2/internal/peersource"
	"github.com/cenkalti/rain/v2/torrent"
)

// kind 1804: an address that is waiting in the address list while its peer gets banned.
// MaxPeerDial is 1.  An answering address takes the only dial slot; the address of an incoming scripted
// peer S is then queued (it cannot be dialled: the slot is taken).  S delivers a corrupt piece and is
// banned and closed.  Then the slot is freed.  The queued address of S must not be dialled.
// Variant 1 is the same story with an honest S: its address may be dialled when the slot is freed.
// in  = [variant]   obs = [S banned, S's address dialled after the slot was freed]
func genBanDial(r *rand.Rand, tier string) Case {
	variant := int64(r.Intn(2))
	in := []int64{variant}
	pl := int64(16384)
	l := vLayout{PL: pl, Name: "b", Lens: []int64{pl + 1 + r.Int63n(pl)}, Pads: []bool{false}}
	l.Total = l.Lens[0]
	content := l.Content(r.Int63())
	v, err := startLoop(l, content, nil, func(c *torrent.Config) {
		c.MaxPeerDial = 1
		c.DisableOutgoingEncryption = true
		c.UnchokedPeers = 0
		c.OptimisticUnchokedPeers = 0
		c.RequestTimeout = time.Hour
		c.PEXEnabled = false
	}, false)
	if err != nil {
		return Case{In: in, Obs: []int64{-710}}
	}
	defer v.Close()
	v.Truth, v.PL = content, pl
	if v.Snapshot().Status != "Downloading" {
		return Case{In: in, Obs: []int64{-711}}
	}
	ih := v.InfoHash()
	ln, err := net.Listen("tcp", ":0")
	if err != nil {
		return Case{In: in, Obs: []int64{-712}}
	}
	defer ln.Close()
	port := ln.Addr().(*net.TCPAddr).Port
	var mu sync.Mutex
	var dialled []string // local (= dialled) address of every accepted connection
	var conns []net.Conn
	go func() {
		for {
			c, err := ln.Accept()
			if err != nil {
				return
			}
			mu.Lock()
			dialled = append(dialled, c.LocalAddr().(*net.TCPAddr).IP.String())
			conns = append(conns, c)
			mu.Unlock()
			go func(c net.Conn) {
				hs := make([]byte, 68)
				if _, err := io.ReadFull(c, hs); err != nil {
					return
				}
				_, _ = c.Write(btHandshake(ih, "-SL0001-scriptedpeer"))
				_, _ = io.Copy(io.Discard, c)
			}(c)
		}
	}()
	defer func() {
		mu.Lock()
		for _, c := range conns {
			c.Close()
		}
		mu.Unlock()
	}()
	// 1. the filler takes the only slot
	filler := &net.TCPAddr{IP: net.IPv4(127, 0, 9, 9), Port: port}
	v.NewAddrs([]*net.TCPAddr{filler}, peersource.Manual)
	if dir, ok, _ := v.PumpHandshake(20 * time.Second); dir != 2 || !ok {
		return Case{In: in, Obs: []int64{-713}}
	}
	// 2. S connects to us; its address arrives from a tracker and has to wait
	s, err := v.AddPeer(false, false, peersource.Incoming)
	if err != nil {
		return Case{In: in, Obs: []int64{-714}}
	}
	sIP := s.Conn.LocalAddr().(*net.TCPAddr).IP
	v.NewAddrs([]*net.TCPAddr{{IP: sIP, Port: port}}, peersource.Tracker)
	if v.ConnState().Addrs != 1 {
		return Case{In: in, Obs: []int64{-715}}
	}
	// 3. S serves piece 0, corrupt in variant 0
	_ = s.Send(5, []byte{0xC0})
	v.PumpEx(10*time.Second, torrent.ClsMsg)
	_ = s.Send(1, nil)
	v.PumpEx(10*time.Second, torrent.ClsMsg)
	for round := 0; round < 6 && !v.WriteInFlight(); round++ {
		v.Barrier()
		fs, _ := s.Take()
		for _, f := range fs {
			if f.ID != 6 || len(f.Payload) < 12 {
				continue
			}
			idx, begin, n := int64(be32(f.Payload[0:])), int64(be32(f.Payload[4:])), int64(be32(f.Payload[8:]))
			p := idx*pl + begin
			data := append([]byte{}, content[p:p+n]...)
			if variant == 0 {
				data[0] ^= 0xff
			}
			_ = s.Send(7, append(u32s(idx, begin), data...))
			if e := v.PumpEx(10*time.Second, torrent.ClsPiece); e.Code == torrent.EvNone {
				return Case{In: in, Obs: []int64{-716}}
			}
		}
	}
	if !v.WriteInFlight() {
		return Case{In: in, Obs: []int64{-717}}
	}
	if e := v.PumpEx(10*time.Second, torrent.ClsWrite); e.Code == torrent.EvNone {
		return Case{In: in, Obs: []int64{-718}}
	}
	banned := v.Snapshot().Banned > 0
	if variant == 1 { // the honest S leaves by itself, so that its address is free to be dialled
		s.Gone = true
		s.Conn.Close()
		v.PumpEx(10*time.Second, torrent.ClsDisc)
	}
	mu.Lock()
	before := len(dialled)
	mu.Unlock()
	// 4. the filler goes away: the slot is free, the loop looks at its address list
	mu.Lock()
	if len(conns) > 0 {
		conns[0].Close()
	}
	mu.Unlock()
	if e := v.PumpEx(10*time.Second, torrent.ClsDisc); e.Code == torrent.EvNone {
		return Case{In: in, Obs: []int64{-719}}
	}
	// a dial, if any, shows up at our listener
	wasDialled := false
	for i := 0; i < 100; i++ {
		mu.Lock()
		for _, ip := range dialled[before:] {
			if ip == sIP.String() {
				wasDialled = true
			}
		}
		mu.Unlock()
		if wasDialled || v.ConnState().OutHandshakes == 0 && i > 10 {
			break
		}
		time.Sleep(10 * time.Millisecond)
	}
	return Case{In: in, Obs: []int64{b2i(banned), b2i(wasDialled)}}
}

func init() {
	Register(1804, "an address queued before its peer was banned for corrupt data is not dialled when a slot becomes free", genBanDial)
}

(* addrlist as a bounded set keyed by priority: invariants over every operation sequence. *)
From RainV Require Import Lib Stree AddrList.
From Coq Require Import ZifyBool Permutation.

Definition prios (l : list entry) : list Z := map e_prio l.

Lemma NoDup_app_one {A} (l : list A) x : NoDup l -> ~ In x l -> NoDup (l ++ [x]).
Proof.
  intros Hn Hx. eapply Permutation_NoDup; [apply Permutation_cons_append|]. constructor; assumption.
Qed.

Lemma replace_prio_prios l e : prios (fst (replace_prio l e)) = prios l.
Proof.
  induction l as [|x r IH]; cbn [replace_prio]; [reflexivity|].
  destruct (e_prio x =? e_prio e) eqn:E; cbn [fst prios map].
  - f_equal. lia.
  - destruct (replace_prio r e) as [r' o]. cbn [fst prios map] in *. f_equal. exact IH.
Qed.

Lemma replace_prio_none l e : snd (replace_prio l e) = None <-> ~ In (e_prio e) (prios l).
Proof.
  induction l as [|x r IH]; cbn [replace_prio prios map In snd]; [tauto|].
  destruct (e_prio x =? e_prio e) eqn:E; cbn [snd].
  - split; [discriminate|]. intros H. exfalso. apply H. left. lia.
  - destruct (replace_prio r e) as [r' o]. cbn [snd] in *. rewrite IH. split; [intros H [Hx|Hx]; [lia|tauto]|tauto].
Qed.

Lemma replace_prio_in l e x : In x (fst (replace_prio l e)) -> x = e \/ In x l.
Proof.
  induction l as [|y r IH]; cbn [replace_prio fst]; [tauto|].
  destruct (e_prio y =? e_prio e); cbn [fst In].
  - intros [<-|H]; auto.
  - destruct (replace_prio r e) as [r' o]. cbn [fst In] in *. intros [<-|H]; [auto|]. destruct (IH H); auto.
Qed.

Definition P_all (P : entry -> Prop) (l : list entry) : Prop := Forall P l.

Lemma add_one_inv (P : entry -> Prop) l cs e l' cs' :
  NoDup (prios l) -> Forall P l -> P e -> add_one (l, cs) e = (l', cs') ->
  NoDup (prios l') /\ Forall P l'.
Proof.
  intros Hnd HP He H. unfold add_one in H.
  pose proof (replace_prio_prios l e) as Hp. pose proof (replace_prio_none l e) as Hn.
  pose proof (replace_prio_in l e) as Hi.
  destruct (replace_prio l e) as [l1 [prev|]]; cbn [fst snd] in *; inversion H; subst.
  - split; [rewrite Hp; assumption|]. apply Forall_forall. intros x Hx.
    destruct (Hi _ Hx) as [->|Hx']; [assumption|]. rewrite Forall_forall in HP. auto.
  - split.
    + unfold prios. rewrite map_app. cbn [map]. apply NoDup_app_one; [assumption|]. apply Hn. reflexivity.
    + apply Forall_app. split; [assumption|constructor; [assumption|constructor]].
Qed.

Lemma fold_add_one_inv (P : entry -> Prop) : forall es l cs l' cs',
  NoDup (prios l) -> Forall P l -> Forall P es -> fold_left add_one es (l, cs) = (l', cs') ->
  NoDup (prios l') /\ Forall P l'.
Proof.
  induction es as [|e r IH]; intros l cs l' cs' Hnd HP Hes H; cbn [fold_left] in H.
  - inversion H; subst. auto.
  - inversion Hes as [|? ? He Hr]; subst. destruct (add_one (l, cs) e) as [l1 cs1] eqn:E.
    destruct (add_one_inv P l cs e l1 cs1 Hnd HP He E) as [H1 H2]. eapply IH; eauto.
Qed.

Lemma resort_perm now l : Permutation l (resort now l).
Proof.
  unfold resort. induction l as [|x r IH]; [constructor|]. cbn [filter].
  destruct (e_time x <? now); cbn [negb app].
  - constructor. exact IH.
  - eapply Permutation_trans; [constructor; exact IH|]. apply Permutation_middle.
Qed.

Lemma evict_sub : forall n l cs, exists k, fst (evict n l cs) = skipn k l /\ (k = Nat.min n (length l)).
Proof.
  induction n as [|n IH]; intros l cs; cbn [evict].
  - exists 0%nat. split; [reflexivity|lia].
  - destruct l as [|e r]; [exists 0%nat; split; [reflexivity|cbn; lia]|].
    destruct (IH r (bump cs (Z.to_nat (e_src e)) (-1))) as (k & Hk & Hm).
    exists (S k). split; [exact Hk|cbn [length]; lia].
Qed.

Lemma NoDup_skipn {A} k (l : list A) : NoDup l -> NoDup (skipn k l).
Proof.
  revert l; induction k as [|k IH]; intros l H; [exact H|]. destruct l; [constructor|].
  inversion H; subst. cbn [skipn]. auto.
Qed.

Lemma Forall_skipn {A} (P : A -> Prop) k l : Forall P l -> Forall P (skipn k l).
Proof.
  revert l; induction k as [|k IH]; intros l H; [exact H|]. destruct l; [constructor|].
  inversion H; subst. cbn [skipn]. auto.
Qed.

Definition unfiltered (c : cfg) (e : entry) : Prop := filtered c (e_ip e) (e_port e) = false.

Record Inv (c : cfg) (s : alist) : Prop := {
  inv_nodup : NoDup (prios (items s));
  inv_filter : Forall (unfiltered c) (items s)
}.

Lemma new_entries_unfiltered c src now addrs :
  Forall (unfiltered c)
    (flat_map (fun a : Z * Z * Z => let '(ip, port, prio) := a in
                 if filtered c ip port then []
                 else [{| e_ip := ip; e_port := port; e_src := src; e_prio := prio; e_time := now |}]) addrs).
Proof.
  induction addrs as [|[[ip port] prio] r IH]; [constructor|]. cbn [flat_map].
  destruct (filtered c ip port) eqn:E; cbn [app]; [assumption|]. constructor; [exact E|assumption].
Qed.

(* every push keeps priorities unique and the filter exact, and bounds the length *)
Theorem push_inv c s src addrs : Inv c s -> Inv c (push c s src addrs).
Proof.
  intros [Hnd Hf]. unfold push.
  set (now := clock s + 1). set (es := flat_map _ addrs).
  pose proof (new_entries_unfiltered c src now addrs) as Hes. fold es in Hes.
  destruct (fold_left add_one es (items s, counts s)) as [l1 cs1] eqn:E.
  destruct (fold_add_one_inv (unfiltered c) es _ _ _ _ Hnd Hf Hes E) as [H1 H2].
  assert (H3 : NoDup (prios (resort now l1))).
  { unfold prios. eapply Permutation_NoDup; [apply Permutation_map; apply resort_perm|exact H1]. }
  assert (H4 : Forall (unfiltered c) (resort now l1)).
  { eapply Permutation_Forall; [apply resort_perm|exact H2]. }
  destruct (zlen (resort now l1) - maxItems c >? 0).
  - destruct (evict_sub (Z.to_nat (zlen (resort now l1) - maxItems c)) (resort now l1)
                        (bump cs1 (Z.to_nat src) (zlen es))) as (k & Hk & _).
    destruct (evict _ _ _) as [l3 cs3]. cbn [fst] in Hk. subst l3.
    constructor; cbn [items].
    + unfold prios. rewrite <- skipn_map. apply NoDup_skipn. exact H3.
    + apply Forall_skipn. exact H4.
  - constructor; cbn [items]; assumption.
Qed.

Theorem push_bounded c s src addrs : 0 <= maxItems c -> zlen (items (push c s src addrs)) <= maxItems c.
Proof.
  intros Hm. unfold push.
  destruct (fold_left add_one _ _) as [l1 cs1].
  set (l2 := resort (clock s + 1) l1). set (cs2 := bump cs1 _ _).
  destruct (zlen l2 - maxItems c >? 0) eqn:E.
  - destruct (evict_sub (Z.to_nat (zlen l2 - maxItems c)) l2 cs2) as (k & Hk & Hmin).
    destruct (evict _ _ _) as [l3 cs3]. cbn [fst items] in *. subst l3.
    unfold zlen in *. rewrite skipn_length. lia.
  - cbn [items]. lia.
Qed.

(* pop returns an entry of maximal priority and removes exactly it *)
Lemma max_prio_spec : forall l best e, max_prio l best = Some e ->
  (In e l \/ best = Some e) /\ (forall x, In x l -> e_prio x <= e_prio e) /\
  (forall b, best = Some b -> e_prio b <= e_prio e).
Proof.
  induction l as [|x r IH]; intros best e H; cbn [max_prio] in H.
  - subst best. split; [right; reflexivity|]. split; [intros ? []|]. intros b Hb; inversion Hb; lia.
  - destruct best as [b|].
    + destruct (e_prio b <? e_prio x) eqn:E.
      * destruct (IH _ _ H) as (H1 & H2 & H3). specialize (H3 x eq_refl).
        split; [destruct H1 as [H1|H1]; [left; right; exact H1|inversion H1; subst; left; left; reflexivity]|].
        split; [intros y [<-|Hy]; [lia|auto]|]. intros b' Hb'; inversion Hb'; subst. lia.
      * destruct (IH _ _ H) as (H1 & H2 & H3). specialize (H3 b eq_refl).
        split; [destruct H1 as [H1|H1]; [left; right; exact H1|right; exact H1]|].
        split; [intros y [<-|Hy]; [lia|auto]|]. intros b' Hb'; inversion Hb'; subst. lia.
    + destruct (IH _ _ H) as (H1 & H2 & H3). specialize (H3 x eq_refl).
      split; [destruct H1 as [H1|H1]; [left; right; exact H1|inversion H1; subst; left; left; reflexivity]|].
      split; [intros y [<-|Hy]; [lia|auto]|]. intros b' Hb'; discriminate.
Qed.

Lemma remove_prio_spec : forall l p, NoDup (prios l) ->
  forall x, In x (remove_prio l p) <-> In x l /\ e_prio x <> p.
Proof.
  induction l as [|y r IH]; intros p Hnd x; cbn [remove_prio]; [cbn; tauto|].
  cbn [prios map] in Hnd. inversion Hnd as [|? ? Hny Hr]; subst.
  destruct (e_prio y =? p) eqn:E.
  - cbn [In]. split.
    + intros Hx. split; [right; exact Hx|]. intros Hp. apply Hny. apply in_map_iff. exists x. split; [lia|exact Hx].
    + intros [[<-|Hx] Hp]; [lia|exact Hx].
  - cbn [In]. rewrite (IH p Hr). split.
    + intros [<-|[Hx Hp]]; [split; [left; reflexivity|lia]|split; [right; exact Hx|exact Hp]].
    + intros [[<-|Hx] Hp]; [left; reflexivity|right; split; assumption].
Qed.

Theorem pop_spec c s s' e : Inv c s -> pop s = (s', Some e) ->
  In e (items s) /\ (forall x, In x (items s) -> e_prio x <= e_prio e) /\
  (forall x, In x (items s') <-> In x (items s) /\ x <> e) /\ unfiltered c e.
Proof.
  intros [Hnd Hf] H. unfold pop in H. destruct (max_prio (items s) None) as [m|] eqn:E; [|discriminate].
  inversion H; subst. cbn [items]. destruct (max_prio_spec _ _ _ E) as (H1 & H2 & _).
  destruct H1 as [H1|H1]; [|discriminate].
  split; [exact H1|]. split; [exact H2|]. split.
  - intros x. rewrite (remove_prio_spec _ _ Hnd). split.
    + intros [Hx Hp]. split; [exact Hx|]. intros ->. congruence.
    + intros [Hx Hne]. split; [exact Hx|]. intros Hp. apply Hne.
      (* unique priorities: same priority, same entry *)
      clear -Hnd Hx H1 Hp. induction (items s) as [|y r IH]; [destruct Hx|].
      cbn [prios map] in Hnd. inversion Hnd as [|? ? Hny Hr]; subst.
      destruct Hx as [<-|Hx], H1 as [<-|H1]; auto.
      * exfalso. apply Hny. apply in_map_iff. exists e. split; [lia|assumption].
      * exfalso. apply Hny. apply in_map_iff. exists x. split; [lia|assumption].
  - rewrite Forall_forall in Hf. apply Hf. exact H1.
Qed.

Theorem pop_inv c s : Inv c s -> Inv c (fst (pop s)).
Proof.
  intros [Hnd Hf]. unfold pop. destruct (max_prio (items s) None) as [m|]; cbn [fst]; [|constructor; assumption].
  constructor; cbn [items].
  - clear Hf. induction (items s) as [|y r IH]; [constructor|]. cbn [remove_prio prios map] in *.
    inversion Hnd as [|? ? Hny Hr]; subst. destruct (e_prio y =? e_prio m); [exact Hr|].
    cbn [prios map]. constructor; [|apply IH; exact Hr].
    intros Hin. apply Hny. apply in_map_iff in Hin as (x & Hx & Hin). apply in_map_iff. exists x. split; [exact Hx|].
    apply (remove_prio_spec r (e_prio m) Hr x). exact Hin.
  - apply Forall_forall. intros x Hx. rewrite Forall_forall in Hf. apply Hf.
    apply (remove_prio_spec (items s) (e_prio m) Hnd x). exact Hx.
Qed.

Lemma reset_inv c s : Inv c (reset s).
Proof. constructor; cbn; constructor. Qed.

Lemma init_inv c : Inv c al_init.
Proof. constructor; cbn; constructor. Qed.

(* all reachable states: any sequence of push / pop / reset *)
Inductive aop := APush (src : Z) (addrs : list (Z * Z * Z)) | APop | AReset.
Definition astep (c : cfg) (s : alist) (o : aop) : alist :=
  match o with APush src a => push c s src a | APop => fst (pop s) | AReset => reset s end.

Theorem reachable_inv c ops : Inv c (fold_left (astep c) ops al_init).
Proof.
  assert (H : forall s, Inv c s -> Inv c (fold_left (astep c) ops s)).
  { induction ops as [|o r IH]; intros s Hs; [exact Hs|]. cbn [fold_left]. apply IH.
    destruct o; cbn [astep]; [apply push_inv|apply pop_inv|apply reset_inv]; assumption. }
  apply H. apply init_inv.
Qed.

(* hence nothing filtered is ever handed out for dialling: port 0, the client's own loopback
   address, its external IP, or a blocked address *)
Corollary popped_never_filtered c ops s' e :
  pop (fold_left (astep c) ops al_init) = (s', Some e) -> filtered c (e_ip e) (e_port e) = false.
Proof. intros H. eapply pop_spec in H; [|apply reachable_inv]. tauto. Qed.

Example al_example : zlen (items (push {| maxItems := 2; listenPort := 6881; clientIP := None; blockRanges := None |}
  al_init 0 [(16909060, 1, 30); (16909061, 0, 20); (16909062, 5, 10); (16909063, 5, 40)])) = 2.
Proof. vm_compute. reflexivity. Qed.

//go:build verif

package piececache

// The two halves of Get, for driving the interleaving "lookup, something else, read" by hand.

type ItemForVerif = item

func (c *Cache) LookupForVerif(key string) *ItemForVerif { return c.getItem(key) }

func (c *Cache) ReadForVerif(i *ItemForVerif, loader Loader) ([]byte, error) {
	return c.getValue(i, loader)
}

(* Session-level model of a leeching torrent: the handlers of the event loop that touch the
   download path (torrent_messagehandler.go, torrent_write.go, torrent_close.go, torrent_start.go,
   torrent_pieces.go) over an abstract state: per-piece Done/Writing flags, per-peer protocol state
   and piece downloader (PieceDl.v without the byte buffer: each accepted block carries only the
   flag "its bytes are the true bytes of that range"), the write in flight, banned sources.

   The piece picker is not re-modelled here (Picker.v does that): which piece a peer is given is an
   OBSERVED choice, recorded by the harness after every handler and validated by [assign]:
   a new download must be legal (C09) and a peer the handler tried must not stay idle while it
   holds an open, unrequested piece it may request (C10).  Everything else is predicted.
   Definitions only. *)
From RainV Require Import Lib Geometry SectionIO PieceDl.

Record ldl := { l_idx : Z; l_af : bool; l_pd : pdl; l_good : bool;
                l_hist : list (Z * bool) }.       (* ghost: accepted blocks (begin, bytes were the true ones) *)

Record lpeer := { q_present : bool; q_closed : bool; q_choking : bool; q_fast : bool;
                  q_has : list bool; q_af : list Z; q_dl : option ldl; q_int : bool;
                  q_reqq : Z;                   (* reqq of the peer's extension handshake, -1 before it *)
                  q_frames : list (list Z) }.   (* frames sent to the peer by the current handler *)

Record lst := { s_blocks : list (list blk); s_secs : list (list section);
                s_done : list bool; s_writing : list bool; s_peers : list lpeer;
                s_inflight : option (Z * Z * bool);      (* source peer, piece, buffer = true content *)
                s_banned : list Z; s_completed : bool; s_q : Z; s_maxdup : Z;
                s_inhist : list (Z * bool);              (* ghost: accepted blocks of the buffer in flight *)
                s_written : list (Z * bool * list (Z * bool));  (* ghost: pieces written to storage: index, goodness, blocks *)
                s_stopped : bool;                        (* stopped by a disk write error *)
                s_bad : Z }.                             (* 0, or why an observed choice was illegal *)

Definition nthb (l : list bool) (i : Z) : bool := (0 <=? i) && nth (Z.to_nat i) l false.
Fixpoint setb (l : list bool) (i : nat) (v : bool) : list bool :=
  match l, i with
  | [], _ => []
  | _ :: r, O => v :: r
  | x :: r, S k => x :: setb r k v
  end.
Definition np_of (s : lst) : Z := zlen (s_done s).

Definition default_peer : lpeer :=
  {| q_present := false; q_closed := false; q_choking := true; q_fast := false; q_has := []; q_af := [];
     q_dl := None; q_int := false; q_reqq := -1; q_frames := [] |}.
Definition get_p (s : lst) (p : Z) : lpeer := nth (Z.to_nat p) (s_peers s) default_peer.
Fixpoint upd_list {A} (l : list A) (i : nat) (f : A -> A) : list A :=
  match l, i with
  | [], _ => []
  | x :: r, O => f x :: r
  | x :: r, S k => x :: upd_list r k f
  end.
Definition with_peers (s : lst) (ps : list lpeer) : lst :=
  {| s_blocks := s_blocks s; s_secs := s_secs s; s_done := s_done s; s_writing := s_writing s; s_peers := ps;
     s_inflight := s_inflight s; s_banned := s_banned s; s_completed := s_completed s; s_q := s_q s;
     s_maxdup := s_maxdup s; s_stopped := s_stopped s; s_inhist := s_inhist s; s_written := s_written s; s_bad := s_bad s |}.
Definition upd_p (s : lst) (p : Z) (f : lpeer -> lpeer) : lst :=
  if p <? 0 then s else with_peers s (upd_list (s_peers s) (Z.to_nat p) f).

Definition set_dl (q : lpeer) (d : option ldl) : lpeer :=
  {| q_present := q_present q; q_closed := q_closed q; q_choking := q_choking q; q_fast := q_fast q; q_has := q_has q;
     q_af := q_af q; q_dl := d; q_int := q_int q; q_reqq := q_reqq q; q_frames := q_frames q |}.
Definition add_frames (q : lpeer) (fs : list (list Z)) : lpeer :=
  if q_closed q then q else
  {| q_present := q_present q; q_closed := q_closed q; q_choking := q_choking q; q_fast := q_fast q; q_has := q_has q;
     q_af := q_af q; q_dl := q_dl q; q_int := q_int q; q_reqq := q_reqq q; q_frames := q_frames q ++ fs |}.
Definition set_choking (q : lpeer) (c : bool) : lpeer :=
  {| q_present := q_present q; q_closed := q_closed q; q_choking := c; q_fast := q_fast q; q_has := q_has q;
     q_af := q_af q; q_dl := q_dl q; q_int := q_int q; q_reqq := q_reqq q; q_frames := q_frames q |}.
Definition set_has (q : lpeer) (h : list bool) : lpeer :=
  {| q_present := q_present q; q_closed := q_closed q; q_choking := q_choking q; q_fast := q_fast q; q_has := h;
     q_af := q_af q; q_dl := q_dl q; q_int := q_int q; q_reqq := q_reqq q; q_frames := q_frames q |}.
Definition set_afl (q : lpeer) (a : list Z) : lpeer :=
  {| q_present := q_present q; q_closed := q_closed q; q_choking := q_choking q; q_fast := q_fast q; q_has := q_has q;
     q_af := a; q_dl := q_dl q; q_int := q_int q; q_reqq := q_reqq q; q_frames := q_frames q |}.
Definition set_int (q : lpeer) (i : bool) : lpeer :=
  {| q_present := q_present q; q_closed := q_closed q; q_choking := q_choking q; q_fast := q_fast q; q_has := q_has q;
     q_af := q_af q; q_dl := q_dl q; q_int := i; q_reqq := q_reqq q; q_frames := q_frames q |}.
(* closePeer: the connection is closed and its piece downloader dropped *)
Definition close_q (q : lpeer) : lpeer :=
  if negb (q_present q) then q else
  {| q_present := q_present q; q_closed := true; q_choking := q_choking q; q_fast := q_fast q; q_has := q_has q;
     q_af := q_af q; q_dl := None; q_int := q_int q; q_reqq := q_reqq q; q_frames := q_frames q |}.
Definition open_q (q : lpeer) : bool := q_present q && negb (q_closed q).

Definition with_flags (s : lst) (dn wr : list bool) (inf : option (Z * Z * bool)) : lst :=
  {| s_blocks := s_blocks s; s_secs := s_secs s; s_done := dn; s_writing := wr; s_peers := s_peers s;
     s_inflight := inf; s_banned := s_banned s; s_completed := s_completed s; s_q := s_q s;
     s_maxdup := s_maxdup s; s_stopped := s_stopped s; s_inhist := s_inhist s; s_written := s_written s; s_bad := s_bad s |}.
Definition with_inhist (s : lst) (h : list (Z * bool)) : lst :=
  {| s_blocks := s_blocks s; s_secs := s_secs s; s_done := s_done s; s_writing := s_writing s; s_peers := s_peers s;
     s_inflight := s_inflight s; s_banned := s_banned s; s_completed := s_completed s; s_q := s_q s;
     s_maxdup := s_maxdup s; s_stopped := s_stopped s; s_inhist := h; s_written := s_written s; s_bad := s_bad s |}.
Definition with_bad (s : lst) (why : Z) : lst :=
  {| s_blocks := s_blocks s; s_secs := s_secs s; s_done := s_done s; s_writing := s_writing s; s_peers := s_peers s;
     s_inflight := s_inflight s; s_banned := s_banned s; s_completed := s_completed s; s_q := s_q s;
     s_maxdup := s_maxdup s; s_stopped := s_stopped s; s_inhist := s_inhist s; s_written := s_written s; s_bad := if s_bad s =? 0 then why else s_bad s |}.

(* GotBlock without the byte buffer *)
Definition got_nb (d : pdl) (begin len : Z) : pdl * gres :=
  if negb (find_block d begin len) then (d, GInvalid)
  else if zmem begin (pd_done d) then (d, GDuplicate)
  else
    let d1 := {| pd_blocks := pd_blocks d; pd_remaining := pd_remaining d; pd_pending := zrem begin (pd_pending d);
                 pd_done := pd_done d ++ [begin]; pd_buf := pd_buf d; pd_af := pd_af d; pd_fast := pd_fast d |} in
    if zmem begin (pd_pending d) then (d1, GOk) else (d1, GNotRequested).

Definition sort_zl (l : list Z) : list Z :=
  fold_right (fun x acc => (fix ins (l : list Z) := match l with [] => [x] | y :: r => if x <=? y then x :: l else y :: ins r end) acc) [] l.

Definition req_frames (idx : Z) (sent : list (Z * Z)) : list (list Z) := map (fun bl => [6; idx; fst bl; snd bl]) sent.
Definition cancel_frames (d : ldl) : list (list Z) :=
  map (fun b => [8; l_idx d; b; match block_len b (pd_blocks (l_pd d)) with Some n => n | None => 0 end])
      (sort_zl (pd_pending (l_pd d))).

(* maxAllowedRequests: the peer's reqq if it announced one, else the default; capped by MaxRequestsOut (250) *)
Definition eff_q (s : lst) (q : lpeer) : Z := Z.min (if q_reqq q >? 0 then q_reqq q else s_q s) 250.

(* pd.RequestBlocks(q) of the peer's downloader, frames appended *)
Definition do_request (s : lst) (p : Z) : lst :=
  let q := get_p s p in
  match q_dl q with
  | Some d => let '(pd', sent) := request_blocks (l_pd d) (eff_q s q) in
              upd_p s p (fun q => add_frames (set_dl q (Some {| l_idx := l_idx d; l_af := l_af d; l_pd := pd'; l_good := l_good d; l_hist := l_hist d |}))
                                            (req_frames (l_idx d) sent))
  | None => s
  end.

Definition close_peer (s : lst) (p : Z) : lst := upd_p s p close_q.

(* updateInterestedState *)
Definition wants (s : lst) (q : lpeer) : bool :=
  negb (s_completed s) && existsb (fun i => negb (nth i (s_done s) false) && nth i (q_has q) false) (seq 0 (length (s_done s))).
Definition upd_interest (s : lst) (p : Z) : lst :=
  let q := get_p s p in
  let w := wants s q in
  if Bool.eqb w (q_int q) then s
  else upd_p s p (fun q => add_frames (set_int q w) [[if w then 2 else 3; 0; 0; 0]]).

Definition peer_ids (s : lst) : list Z := map Z.of_nat (seq 0 (length (s_peers s))).
Definition idle_open (s : lst) : list Z :=
  filter (fun p => let q := get_p s p in open_q q && match q_dl q with None => true | _ => false end) (peer_ids s).

(* closePeer as a handler step.  [fixed = false]: the pinned code, which leaves the piece the peer was
   downloading unrequested until an unrelated event; [fixed = true]: after fix D20 the idle peers
   are tried when the closed peer had a piece downloader *)
Definition close_t (fixed : bool) (s : lst) (p : Z) : lst * list Z :=
  let had := match q_dl (get_p s p) with Some _ => negb (q_closed (get_p s p)) | None => false end in
  let s1 := close_peer s p in
  (s1, if fixed && had then idle_open s1 else []).

(* ---- observed assignment ---- *)
Definition dec_asg (a : Z) : option (Z * bool) := if a <? 0 then None else Some (a / 2, z2b (a mod 2)).
Definition count_on (asg : list Z) (i : Z) : Z :=
  zlen (filter (fun a => match dec_asg a with Some (j, _) => j =? i | None => false end) asg).
Definition open_piece (s : lst) (i : Z) : bool := negb (nthb (s_done s) i) && negb (nthb (s_writing s) i).
Definition may_request (q : lpeer) (i : Z) (af : bool) : bool := if af then zmem i (q_af q) else negb (q_choking q).
Definition legal_new (s : lst) (asg : list Z) (q : lpeer) (i : Z) (af : bool) : bool :=
  negb (s_completed s) && open_q q && (0 <=? i) && (i <? np_of s) && nthb (q_has q) i && open_piece s i &&
  may_request q i af && (count_on asg i <=? Z.max 1 (s_maxdup s)).
Definition new_dl (s : lst) (q : lpeer) (i : Z) (af : bool) : ldl :=
  let bl := nth (Z.to_nat i) (s_blocks s) [] in
  {| l_idx := i; l_af := af; l_pd := pdl_new bl 0 af (q_fast q); l_good := true; l_hist := [] |}.

Fixpoint assign_go (s : lst) (tried : list Z) (asg : list Z) (all : list Z) (p : Z) : lst :=
  match asg with
  | [] => s
  | a :: r =>
      let q := get_p s p in
      let s' :=
        match q_dl q, dec_asg a with
        | Some d, Some (i, af) => if (i =? l_idx d) && Bool.eqb af (l_af d) then s else with_bad s (100 + p)
        | Some _, None => with_bad s (200 + p)
        | None, Some (i, af) =>
            if zmem p tried && legal_new s all q i af
            then do_request (upd_p s p (fun q => set_dl q (Some (new_dl s q i af)))) p
            else with_bad s (300 + p)
        | None, None => s
        end in
      assign_go s' tried r all (p + 1)
  end.
Definition assign (s : lst) (tried : list Z) (asg : list Z) : lst :=
  if Nat.eqb (length asg) (length (s_peers s)) then assign_go s tried asg asg 0 else with_bad s 650.

(* ---- handlers: (state after the deterministic part, peers the handler tries to start) ---- *)
Definition all_true (l : list bool) : bool := forallb (fun b => b) l.

Definition h_have (fixed : bool) (s : lst) (p i : Z) : lst * list Z :=
  if (i <? 0) || (i >=? np_of s) then close_t fixed s p
  else let s1 := upd_p s p (fun q => set_has q (setb (q_has q) (Z.to_nat i) true)) in (upd_interest s1 p, [p]).

Definition h_bits (fixed : bool) (s : lst) (p : Z) (bits : list bool) (bad : bool) : lst * list Z :=
  if bad then close_t fixed s p
  else let s1 := upd_p s p (fun q => set_has q (map (fun xy => orb (fst xy) (snd xy)) (combine (q_has q) bits))) in
       (upd_interest s1 p, [p]).

Definition h_allowed_fast (fixed : bool) (s : lst) (p i : Z) : lst * list Z :=
  if (i <? 0) || (i >=? np_of s) then close_t fixed s p
  else (upd_p s p (fun q => set_afl q (if zmem i (q_af q) then q_af q else q_af q ++ [i])), []).

Definition h_unchoke (s : lst) (p : Z) : lst * list Z :=
  let s1 := upd_p s p (fun q => set_choking q false) in
  match q_dl (get_p s p) with
  | None => (s1, [p])
  | Some d => if l_af d then (do_request s1 p, [])   (* an allowed-fast download: blocks the peer rejected meanwhile are asked for again *)
              else (do_request s1 p, [])
  end.

Definition h_choke (s : lst) (p : Z) : lst * list Z :=
  let s1 := upd_p s p (fun q => set_choking q true) in
  match q_dl (get_p s p) with
  | None => (s1, [])
  | Some d => if l_af d then (s1, [])
              else let s2 := upd_p s1 p (fun q => set_dl q (Some {| l_idx := l_idx d; l_af := l_af d; l_pd := choked (l_pd d); l_good := l_good d; l_hist := l_hist d |})) in
                   (s2, idle_open s2)
  end.

Definition h_reject (fixed : bool) (s : lst) (p i b n : Z) : lst * list Z :=
  if (i <? 0) || (i >=? np_of s) then close_t fixed s p
  else match q_dl (get_p s p) with
       | None => (s, [])
       | Some d => if negb (l_idx d =? i) then (s, [])
                   else let '(pd', ok) := rejected (l_pd d) b n in
                        if ok then (upd_p s p (fun q => set_dl q (Some {| l_idx := l_idx d; l_af := l_af d; l_pd := pd'; l_good := l_good d; l_hist := l_hist d |})), [])
                        else close_t fixed s p
       end.

Definition h_piece (fixed : bool) (s : lst) (p i b n : Z) (good : bool) : lst * list Z :=
  let q := get_p s p in
  if q_closed q then (s, [])
  else if (i <? 0) || (i >=? np_of s) then close_t fixed s p
  else match q_dl q with
       | None => (s, [])
       | Some d =>
           if negb (l_idx d =? i) then (s, [])
           else let '(pd', g) := got_nb (l_pd d) b n in
                match g with
                | GInvalid => close_t fixed s p
                | GDuplicate => (s, [])
                | _ =>
                    let d' := {| l_idx := l_idx d; l_af := l_af d; l_pd := pd'; l_good := l_good d && good; l_hist := l_hist d ++ [(b, good)] |} in
                    if pd_finished pd' then
                      (* closePieceDownloader; piece.Writing = true; channels suspended; writer started *)
                      let s1 := upd_p s p (fun q => set_dl q None) in
                      (with_inhist (with_flags s1 (s_done s1) (setb (s_writing s1) (Z.to_nat i) true) (Some (p, i, l_good d'))) (l_hist d'), [p])
                    else
                      let s1 := upd_p s p (fun q => set_dl q (Some d')) in
                      if l_af d || negb (q_choking q) then (do_request s1 p, []) else (s1, [])
                end
       end.

Definition h_snub (s : lst) (p : Z) : lst * list Z :=
  let q := get_p s p in
  match q_dl q with
  | None => (s, [])
  | Some _ => if q_choking q then (s, []) else (s, idle_open s)
  end.

Definition h_disconnect (fixed : bool) (s : lst) (p : Z) : lst * list Z := close_t fixed s p.

Definition h_connect (s : lst) (p : Z) (fast : bool) : lst * list Z :=
  if q_present (get_p s p) then (with_bad s 800, []) else
  (upd_p s p (fun q => {| q_present := true; q_closed := false; q_choking := true; q_fast := fast;
                          q_has := map (fun _ => false) (s_done s); q_af := []; q_dl := None; q_int := false; q_reqq := -1;
                          q_frames := [] |}), []).

(* extension handshake: only the first one counts *)
Definition h_ext (s : lst) (p a : Z) : lst * list Z :=
  (upd_p s p (fun q => if q_reqq q <? 0 then
     {| q_present := q_present q; q_closed := q_closed q; q_choking := q_choking q; q_fast := q_fast q; q_has := q_has q;
        q_af := q_af q; q_dl := q_dl q; q_int := q_int q; q_reqq := Z.max a 0; q_frames := q_frames q |} else q), []).

Definition on_piece (s : lst) (i : Z) : list Z :=
  filter (fun p => match q_dl (get_p s p) with Some d => l_idx d =? i | None => false end) (peer_ids s).

(* C10, on the state after a handler: an idle, unchoked, open peer holding an open piece nobody is
   downloading (the wording of the property; allowed-fast grants to choked peers are not counted) *)
Definition unrequested (s : lst) (i : Z) : bool := match on_piece s i with [] => true | _ => false end.
Definition elig (s : lst) (p : Z) : bool :=
  let q := get_p s p in
  negb (s_completed s) && negb (s_stopped s) && open_q q && negb (q_choking q) &&
  match q_dl q with None => true | Some _ => false end &&
  existsb (fun i => nthb (q_has q) i && open_piece s i && unrequested s i) (map Z.of_nat (seq 0 (length (s_done s)))).
(* C09: simultaneous downloads of one piece stay within the end-game limit *)
Definition over_dup (s : lst) (i : Z) : bool := zlen (on_piece s i) >? Z.max 1 (s_maxdup s).
Definition first_such (f : Z -> bool) (l : list Z) : option Z :=
  match filter f l with [] => None | x :: _ => Some x end.
Definition post_check (s : lst) : lst :=
  match first_such (elig s) (peer_ids s) with
  | Some p => with_bad s (400 + Z.abs p)
  | None => match first_such (over_dup s) (map Z.of_nat (seq 0 (length (s_done s)))) with
            | Some i => with_bad s (450 + Z.abs i)
            | None => s
            end
  end.

(* handlePieceWriteDone, part before the picker runs *)
Definition stop_all (s : lst) : lst :=
  {| s_blocks := s_blocks s; s_secs := s_secs s; s_done := s_done s; s_writing := s_writing s;
     s_peers := map close_q (s_peers s); s_inflight := s_inflight s; s_banned := s_banned s; s_completed := s_completed s;
     s_q := s_q s; s_maxdup := s_maxdup s; s_stopped := true; s_inhist := s_inhist s; s_written := s_written s; s_bad := s_bad s |}.

Definition h_write_pre (s : lst) (werr : bool) : lst * list Z :=
  match s_inflight s with
  | None => (with_bad s 500, [])
  | Some (src, i, good) =>
      let s0 := with_flags s (s_done s) (setb (s_writing s) (Z.to_nat i) false) None in
      if good && werr then
        (* the hash matched but the disk write failed: the torrent stops, the piece is not marked *)
        (stop_all s0, [])
      else if good then
        let s1 := with_flags s0 (setb (s_done s0) (Z.to_nat i) true) (s_writing s0) None in
        let s1 := {| s_blocks := s_blocks s1; s_secs := s_secs s1; s_done := s_done s1; s_writing := s_writing s1; s_peers := s_peers s1;
                     s_inflight := None; s_banned := s_banned s1; s_completed := s_completed s1; s_q := s_q s1;
                     s_maxdup := s_maxdup s1; s_stopped := s_stopped s1; s_inhist := s_inhist s1; s_written := s_written s1 ++ [(i, true, s_inhist s1)]; s_bad := s_bad s1 |} in
        let req := on_piece s1 i in
        (* closePieceDownloader + CancelPending for every downloader of that piece *)
        (fold_left (fun s p => upd_p s p (fun q => match q_dl q with
                                                     | Some d => add_frames (set_dl q None) (cancel_frames d)
                                                     | None => q end)) req s1, req)
      else
        let s1 := close_peer s0 src in
        ({| s_blocks := s_blocks s1; s_secs := s_secs s1; s_done := s_done s1; s_writing := s_writing s1; s_peers := s_peers s1;
            s_inflight := None; s_banned := if zmem src (s_banned s1) then s_banned s1 else s_banned s1 ++ [src];
            s_completed := s_completed s1; s_q := s_q s1; s_maxdup := s_maxdup s1; s_stopped := s_stopped s1; s_inhist := s_inhist s1; s_written := s_written s1; s_bad := s_bad s1 |},
         idle_open s1)
  end.

(* ... and the part after it: interest, have messages, completion *)
Definition h_write_post (s : lst) (i : Z) : lst :=
  let s1 := fold_left (fun s p =>
              let q := get_p s p in
              if open_q q then
                let s' := upd_interest s p in
                if nthb (q_has q) i then s' else upd_p s' p (fun q => add_frames q [[4; i; 0; 0]])
              else s) (peer_ids s) s in
  if all_true (s_done s1) then
    (* checkCompletion: every peer that is not interested in us is closed; the picker is dropped *)
    let s2 := with_peers s1 (map (fun q => if open_q q then close_q q else q) (s_peers s1)) in
    {| s_blocks := s_blocks s2; s_secs := s_secs s2; s_done := s_done s2; s_writing := s_writing s2; s_peers := s_peers s2;
       s_inflight := s_inflight s2; s_banned := s_banned s2; s_completed := true; s_q := s_q s2;
       s_maxdup := s_maxdup s2; s_stopped := s_stopped s2; s_inhist := s_inhist s2; s_written := s_written s2; s_bad := s_bad s2 |}
  else s1.

(* frames are compared event by event (the harness puts a barrier after every handler) *)
Definition clear_frames (s : lst) : lst :=
  with_peers s (map (fun q =>
    {| q_present := q_present q; q_closed := q_closed q; q_choking := q_choking q; q_fast := q_fast q; q_has := q_has q;
       q_af := q_af q; q_dl := q_dl q; q_int := q_int q; q_reqq := q_reqq q; q_frames := [] |}) (s_peers s)).

(* ---- observation after a handler ---- *)
Definition obs_state (s : lst) : list Z :=
  map b2z (s_done s) ++ map b2z (s_writing s) ++ map b2z (s_done s) ++
  flat_map (fun q => [b2z (q_closed q); b2z (q_int q);
                      match q_dl q with Some d => zlen (pd_pending (l_pd d)) | None => -1 end]) (s_peers s) ++
  [zlen (s_banned s); zlen (filter open_q (s_peers s)); b2z (s_completed s); (if s_stopped s then 9 else if s_completed s then 2 else 1);
   b2z (match s_inflight s with Some _ => true | None => false end)] ++
  flat_map (fun i => let l := on_piece s i in zlen l :: l) (map Z.of_nat (seq 0 (length (s_done s)))).

Definition write_obs (s : lst) (inf : option (Z * Z * bool)) (werr : bool) : list Z :=
  match inf with
  | None => [-556]
  | Some (_, i, good) =>
      if good && werr then [i; 1; 1]
      else if good then
        let ws := filter (fun x => negb (spad x)) (nth (Z.to_nat i) (s_secs s) []) in
        [i; 1; 0; zlen ws] ++ flat_map (fun x => [Z.of_nat (sfile x); soff x; slen x; 1]) ws
      else [i; 0; 0; 0]
  end.

(* the handler of an event: [code p a b c g], bits *)
Definition dispatch (fixed : bool) (s : lst) (code p a b c g : Z) (bits : list bool) : lst * list Z :=
  if code =? 1 then h_have fixed s p a
  else if code =? 2 then h_bits fixed s p bits (z2b g)
  else if code =? 3 then h_bits fixed s p (map (fun _ => true) (s_done s)) false
  else if code =? 4 then h_allowed_fast fixed s p a
  else if code =? 5 then h_unchoke s p
  else if code =? 6 then h_choke s p
  else if code =? 7 then h_reject fixed s p a b c
  else if code =? 8 then (* the piece channel is suspended while a write is in flight *)
    match s_inflight s with Some _ => (with_bad s 900, []) | None => h_piece fixed s p a b c (z2b g) end
  else if code =? 9 then h_write_pre s (z2b g)
  else if code =? 10 then h_snub s p
  else if code =? 11 then h_disconnect fixed s p
  else if code =? 12 then h_connect s p (z2b a)
  else if code =? 13 then h_ext s p a
  else (s, []).

(* one event with the observed assignment after it *)
Definition lstep (fixed : bool) (s : lst) (ev : list Z) (bits : list bool) (asg : list Z) : lst * list Z :=
  let s := clear_frames s in
  match ev with
  | [code; p; a; b; c; g] =>
      let inf := s_inflight s in
      let '(s1, tried) := dispatch fixed s code p a b c g bits in
      let s2 := assign s1 (if s_completed s1 || s_stopped s1 then [] else tried) asg in
      let s3 := if (code =? 9) && negb (z2b g) then match inf with Some (_, i, true) => h_write_post s2 i | _ => s2 end else s2 in
      let s4 := post_check s3 in
      (s4, obs_state s4 ++ (if code =? 9 then write_obs s inf (z2b g) else []))
  | _ => (with_bad s 600, [-779])
  end.

(* ---- frames observed by the scripted peers during one event ----
   a peer open after the handler received exactly the frames sent to it (as a multiset: requests
   after a choke and cancels come out in map order); frames sent to a peer in the handler that
   closed it may be lost with the connection, in any subset; a peer closed before gets nothing *)
Fixpoint remove_frame (x : list Z) (l : list (list Z)) : option (list (list Z)) :=
  match l with
  | [] => None
  | y :: r => if list_eqb_Z x y then Some r else match remove_frame x r with Some r' => Some (y :: r') | None => None end
  end.
Fixpoint sub_multiset (a b : list (list Z)) : bool :=
  match a with
  | [] => true
  | x :: r => match remove_frame x b with Some b' => sub_multiset r b' | None => false end
  end.
Definition frames_ok (closed_before : bool) (q : lpeer) (obs : list (list Z)) : bool :=
  if closed_before || negb (q_present q) then Nat.eqb (length obs) 0
  else if q_closed q then sub_multiset obs (q_frames q)
  else sub_multiset obs (q_frames q) && Nat.eqb (length obs) (length (q_frames q)).

Fixpoint rd_frames (n : nat) (l : list Z) : list (list Z) * list Z :=
  match n, l with
  | S k, a :: b :: c :: d :: r => let '(fs, rest) := rd_frames k r in ([a; b; c; d] :: fs, rest)
  | _, _ => ([], l)
  end.
(* reads the per-peer frame lists of one event and checks them; returns the first failing peer *)
Fixpoint check_frames (before after : list lpeer) (p : Z) (l : list Z) : Z * list Z :=
  match before, after with
  | qb :: rb, qa :: ra =>
      match l with
      | n :: rest => let '(fs, rest') := rd_frames (Z.to_nat n) rest in
                     let '(bad, rest'') := check_frames rb ra (p + 1) rest' in
                     (if frames_ok (q_closed qb) qa fs then bad else 700 + p, rest'')
      | [] => (799, [])
      end
  | _, _ => (0, l)
  end.

(* ---- case codec, kind 101 ---- *)
Definition step_case (fixed : bool) (np P : nat) (s : lst) (l : list Z) : option (lst * list Z * list Z) :=
  match rdn 6 l with
  | Some (ev, r1) =>
      match rdn np r1 with
      | Some (bits, r2) =>
          match rdn P r2 with
          | Some (asg, r3) =>
              let '(s', o) := lstep fixed s ev (map z2b bits) asg in
              let '(bad, r4) := check_frames (s_peers s) (s_peers s') 0 r3 in
              Some (if bad =? 0 then s' else with_bad s' bad, o, r4)
          | None => None
          end
      | None => None
      end
  | None => None
  end.

Fixpoint run_le_go (fixed : bool) (fuel : nat) (np P : nat) (s : lst) (l : list Z) : list Z :=
  match fuel with
  | O => [-778]
  | S f =>
    match l with
    | [-1; expect] =>
        (* expect = 1: at the end an honest, unchoked seed was the only open peer and had been served in full:
           the download must have completed (or been stopped by an injected disk error) *)
        (if z2b expect && negb (s_completed s || s_stopped s) then [-558] else []) ++
        (if s_bad s =? 0 then [] else [-555; s_bad s])
    | _ => match step_case fixed np P s l with
           | Some (s', o, rest) => o ++ run_le_go fixed f np P s' rest
           | None => [-779]
           end
    end
  end.

Definition final_codes (s : lst) (init_eq : list Z) : list Z :=
  map (fun de => if fst de || z2b (snd de) then 1 else 2) (combine (s_done s) init_eq).

Fixpoint last_state (fixed : bool) (fuel : nat) (np P : nat) (s : lst) (l : list Z) : lst :=
  match fuel with
  | O => s
  | S f =>
    match l with
    | [-1; _] => s
    | _ => match step_case fixed np P s l with
           | Some (s', _, rest) => last_state fixed f np P s' rest
           | None => s
           end
    end
  end.

Definition init_state (fs : list file) (PL total q maxdup : Z) (P np : nat) (done0 : list bool) : option lst :=
  match new_pieces fs PL total np with
  | Ok ps =>
      let bls := map (fun p => match calc_blocks true 16384 (psecs p) with Ok b => b | _ => [] end) ps in
      Some {| s_blocks := bls; s_secs := map psecs ps; s_done := done0; s_writing := map (fun _ => false) done0;
              s_peers := repeat default_peer P; s_inflight := None; s_banned := []; s_completed := false; s_q := q;
              s_maxdup := maxdup; s_stopped := false; s_inhist := []; s_written := []; s_bad := 0 |}
  | _ => None
  end.

Definition run_leech (fixed : bool) (inp : list Z) : list Z :=
  match inp with
  | PL :: total :: nf :: r =>
      let fs := rd_files (Z.to_nat nf) r in
      match rdn (2 * Z.to_nat nf) r with
      | Some (_, q :: maxdup :: sq :: P :: np :: r1) =>
          match rdn (Z.to_nat np) r1 with
          | Some (d0, r2) =>
              match rdn (Z.to_nat np) r2 with
              | Some (ieq, evs) =>
                  match evs with
                  | [-1] => [if all_true (map z2b d0) then 2 else 1]      (* no history: seeding at once *)
                  | _ =>
                    match init_state fs PL total q maxdup (Z.to_nat P) (Z.to_nat np) (map z2b d0) with
                    | Some s0 =>
                        let body := run_le_go fixed (S (length evs)) (Z.to_nat np) (Z.to_nat P) s0 evs in
                        let sf := last_state fixed (S (length evs)) (Z.to_nat np) (Z.to_nat P) s0 evs in
                        [1] ++ body ++ final_codes sf ieq
                    | None => [-778]
                    end
                  end
              | None => [-779]
              end
          | None => [-779]
          end
      | _ => [-779]
      end
  | _ => [-779]
  end.

(* kind 105: an honest web seed served in full, alone or next to a peer that never delivers:
   the download completes and the files are the content *)
Definition run_webseed (inp : list Z) : list Z := [1; 1].

(* Proofs about calculateBlocks: the blocks of a piece tile exactly its non-padding bytes. *)
From RainV Require Import Lib Geometry.
Definition S_ n p := {| sfile := O; soff := 0; slen := n; spad := p |}.

(* specification vocabulary *)
Fixpoint nonpad_at (l : list section) (off x : Z) : Prop :=
  match l with
  | [] => False
  | s :: r => (spad s = false /\ off <= x < off + slen s) \/ nonpad_at r (off + slen s) x
  end.

Definition covered (bl : list blk) (x : Z) : Prop :=
  exists b, In b bl /\ bbeg b <= x < bbeg b + blen b.

(* blocks are in increasing order, disjoint, all inside [0, hi) *)
Fixpoint ordered (lo : Z) (bl : list blk) (hi : Z) : Prop :=
  match bl with
  | [] => lo <= hi
  | b :: r => lo <= bbeg b /\ 0 < blen b /\ ordered (bbeg b + blen b) r hi
  end.

Definition sized (bs : Z) (bl : list blk) : Prop := forall b, In b bl -> 0 < blen b <= bs.

Definition allb (s : bst) : list blk := out s ++ (if blen (cur s) =? 0 then [] else [cur s]).

Lemma covered_app a b x : covered (a ++ b) x <-> covered a x \/ covered b x.
Proof.
  unfold covered; split.
  - intros (k & Hin & Hr). apply in_app_or in Hin as [H|H]; [left|right]; eauto.
  - intros [(k & Hin & Hr)|(k & Hin & Hr)]; exists k; split; auto; apply in_or_app; auto.
Qed.

Lemma covered_nil x : ~ covered [] x.
Proof. intros (k & [] & _). Qed.

Lemma covered_one b x : covered [b] x <-> bbeg b <= x < bbeg b + blen b.
Proof.
  unfold covered; split.
  - intros (k & [<-|[]] & Hr); auto.
  - intros H; exists b; split; [left; reflexivity|auto].
Qed.

Lemma ordered_lo_weaken lo lo' bl hi : ordered lo bl hi -> lo' <= lo -> ordered lo' bl hi.
Proof. destruct bl as [|x r]; cbn; intros H Hle; [lia|]. destruct H as (H1 & H2 & H3); repeat split; auto; lia. Qed.

Lemma ordered_app lo a b hi mid :
  ordered lo a mid -> ordered mid b hi -> ordered lo (a ++ b) hi.
Proof.
  revert lo; induction a as [|x a IH]; cbn; intros lo Ha Hb.
  - eapply ordered_lo_weaken; eauto.
  - destruct Ha as (H1 & H2 & H3). repeat split; auto.
Qed.

Lemma ordered_weaken lo bl hi hi' : ordered lo bl hi -> hi <= hi' -> ordered lo bl hi'.
Proof.
  revert lo; induction bl as [|x r IH]; cbn; intros lo H Hle; [lia|].
  destruct H as (H1 & H2 & H3); repeat split; eauto.
Qed.

Lemma ordered_lo_hi lo bl hi : ordered lo bl hi -> lo <= hi.
Proof.
  revert lo; induction bl as [|x r IH]; cbn; intros lo H; [lia|].
  destruct H as (H1 & H2 & H3). apply IH in H3. lia.
Qed.

Lemma covered_allb s y :
  covered (allb s) y <-> covered (out s) y \/ (bbeg (cur s) <= y < bbeg (cur s) + blen (cur s)).
Proof.
  unfold allb. rewrite covered_app. destruct (blen (cur s) =? 0) eqn:E.
  - apply Z.eqb_eq in E. split; intros [H|H]; auto.
    + exfalso; eapply covered_nil; eauto.
    + lia.
  - rewrite covered_one. tauto.
Qed.

Lemma ordered_extend_last lo a b n hi :
  ordered lo (a ++ [b]) hi -> bbeg b + blen b = hi -> 0 <= n ->
  ordered lo (a ++ [{| bbeg := bbeg b; blen := blen b + n |}]) (hi + n).
Proof.
  revert lo; induction a as [|x r IH]; cbn; intros lo H Hb Hn.
  - destruct H as (H1 & H2 & H3). repeat split; lia.
  - destruct H as (H1 & H2 & H3). repeat split; auto.
Qed.

(* the invariant *)
Record Inv (bs : Z) (pre : list section) (s : bst) : Prop := {
  i_cov : forall x, covered (allb s) x <-> nonpad_at pre 0 x;
  i_ord : ordered 0 (allb s) (poff s);
  i_siz : sized bs (allb s);
  i_cur : bbeg (cur s) + blen (cur s) = poff s /\ 0 <= blen (cur s) < bs;
  i_off : poff s = fold_left (fun a x => a + slen x) pre 0
}.

Lemma nonpad_at_app l1 l2 off x :
  nonpad_at (l1 ++ l2) off x <->
  nonpad_at l1 off x \/ nonpad_at l2 (fold_left (fun a s => a + slen s) l1 off) x.
Proof.
  revert off; induction l1 as [|s r IH]; cbn; intros off; [tauto|].
  rewrite IH. tauto.
Qed.

Lemma fold_app_off l s off :
  fold_left (fun a x => a + slen x) (l ++ [s]) off = fold_left (fun a x => a + slen x) l off + slen s.
Proof. rewrite fold_left_app; reflexivity. Qed.

Lemma allb_next_block s :
  allb (next_block true s) = allb s.
Proof.
  unfold next_block, allb. destruct (blen (cur s) =? 0) eqn:E; cbn.
  - reflexivity.
  - rewrite <- app_assoc. reflexivity.
Qed.

Lemma poff_next_block s : poff (next_block true s) = poff s.
Proof. unfold next_block; destruct (blen (cur s) =? 0); reflexivity. Qed.

Lemma cur_next_block s : cur (next_block true s) = {| bbeg := poff s; blen := 0 |}.
Proof. unfold next_block; destruct (blen (cur s) =? 0); reflexivity. Qed.

(* padding step *)
Lemma inv_pad bs pre s x :
  0 < bs -> 0 <= slen x -> spad x = true -> Inv bs pre s ->
  Inv bs (pre ++ [x]) (next_block true {| out := out s; cur := cur s; poff := poff s + slen x |}).
Proof.
  intros Hbs Hlen Hp [Hc Ho Hs Hk Hoff].
  set (s1 := {| out := out s; cur := cur s; poff := poff s + slen x |}).
  assert (Ha : allb s1 = allb s) by reflexivity.
  constructor.
  - intros y. rewrite allb_next_block, Ha, Hc, nonpad_at_app. cbn. rewrite Hp.
    split; [tauto|]. intros [H|[[H _]|[]]]; [auto|discriminate].
  - rewrite allb_next_block, poff_next_block, Ha. cbn. eapply ordered_weaken; eauto; lia.
  - rewrite allb_next_block, Ha. exact Hs.
  - rewrite cur_next_block, poff_next_block. cbn. lia.
  - rewrite poff_next_block, fold_app_off. cbn. lia.
Qed.

(* consume: generalised over the part of the section already eaten *)
Lemma consume_inv bs pre x : 0 < bs -> spad x = false ->
  forall fuel s left,
    0 <= left <= slen x ->
    (Z.of_nat fuel >= (left + blen (cur s)) / bs + 1) ->
    (* invariant w.r.t. prefix + the eaten part of x *)
    (forall y, covered (allb s) y <->
       nonpad_at pre 0 y \/ (poff s - (slen x - left) <= y < poff s)) ->
    ordered 0 (allb s) (poff s) -> sized bs (allb s) ->
    (bbeg (cur s) + blen (cur s) = poff s /\ 0 <= blen (cur s) < bs) ->
    poff s = fold_left (fun a z => a + slen z) pre 0 + (slen x - left) ->
    exists s', consume true bs fuel s left = Some s' /\ Inv bs (pre ++ [x]) s'.
Proof.
  intros Hbs Hp. induction fuel as [|f IH]; intros s left Hl Hf Hc Ho Hs Hk Hoff.
  - exfalso. assert (0 <= (left + blen (cur s)) / bs) by (apply Z.div_pos; lia). lia.
  - cbn [consume].
    set (n := Z.min left (bs - blen (cur s))).
    assert (Hn : 0 <= n <= left /\ n <= bs - blen (cur s)) by (unfold n; lia).
    set (s1 := {| out := out s; cur := {| bbeg := bbeg (cur s); blen := blen (cur s) + n |};
                  poff := poff s + n |}).
    (* facts about s1 *)
    assert (Hc1 : forall y, covered (allb s1) y <->
              nonpad_at pre 0 y \/ (poff s1 - (slen x - (left - n)) <= y < poff s1)).
    { intros y. specialize (Hc y). rewrite covered_allb in *. unfold s1; cbn.
      destruct Hk as [Hk1 Hk2].
      split.
      - intros [Hy|Hy].
        + destruct Hc as [Hc _]. destruct (Hc (or_introl Hy)) as [Hz|Hz]; [left; exact Hz|right; lia].
        + destruct (Z_lt_le_dec y (poff s)) as [Hlt|Hge].
          * destruct Hc as [Hc _]. destruct Hc as [Hz|Hz]; [right; lia|left; exact Hz|right; lia].
          * right; lia.
      - intros [Hy|Hy].
        + destruct Hc as [_ Hc]. destruct (Hc (or_introl Hy)) as [Hz|Hz]; [left; exact Hz|right; lia].
        + destruct (Z_lt_le_dec y (poff s)) as [Hlt|Hge].
          * destruct Hc as [_ Hc]. destruct Hc as [Hz|Hz]; [right; lia|left; exact Hz|right; lia].
          * right; lia. }
    assert (Ho1 : ordered 0 (allb s1) (poff s1)).
    { unfold allb, s1 in *; cbn.
      destruct (blen (cur s) =? 0) eqn:E0; destruct (blen (cur s) + n =? 0) eqn:E1;
        rewrite ?Z.eqb_eq, ?Z.eqb_neq in *.
      - eapply ordered_weaken; eauto; lia.
      - rewrite app_nil_r in Ho. eapply ordered_app; [exact Ho|]. cbn. lia.
      - lia.
      - (* extend last block *)
        apply ordered_extend_last; auto; lia. }
    assert (Hs1 : sized bs (allb s1)).
    { unfold sized, allb, s1 in *; cbn. intros b Hin. apply in_app_or in Hin as [Hin|Hin].
      - apply Hs. apply in_or_app; left; auto.
      - destruct (blen (cur s) + n =? 0) eqn:E1; [destruct Hin|].
        destruct Hin as [<-|[]]. cbn. rewrite Z.eqb_neq in E1. lia. }
    assert (Hk1 : bbeg (cur s1) + blen (cur s1) = poff s1 /\ 0 <= blen (cur s1) <= bs)
      by (unfold s1; cbn; lia).
    (* s2 *)
    set (s2 := if bs - blen (cur s1) =? 0 then next_block true s1 else s1).
    assert (Ha2 : allb s2 = allb s1)
      by (unfold s2; destruct (bs - blen (cur s1) =? 0); [apply allb_next_block|reflexivity]).
    assert (Hp2 : poff s2 = poff s1)
      by (unfold s2; destruct (bs - blen (cur s1) =? 0); [apply poff_next_block|reflexivity]).
    assert (Hk2 : bbeg (cur s2) + blen (cur s2) = poff s2 /\ 0 <= blen (cur s2) < bs).
    { unfold s2. destruct (bs - blen (cur s1) =? 0) eqn:E; rewrite ?Z.eqb_eq, ?Z.eqb_neq in E.
      - rewrite cur_next_block, poff_next_block; cbn; lia.
      - lia. }
    assert (Hoff2 : poff s2 = fold_left (fun a z => a + slen z) pre 0 + (slen x - (left - n)))
      by (rewrite Hp2; unfold s1; cbn; lia).
    destruct (left - n =? 0) eqn:El; rewrite ?Z.eqb_eq, ?Z.eqb_neq in El.
    + exists s2; split; [reflexivity|]. constructor.
      * intros y. rewrite Ha2, Hc1, nonpad_at_app. cbn. rewrite Hp.
        unfold s1; cbn. split.
        -- intros [H|H]; [left; auto|right; left; split; auto; lia].
        -- intros [H|[[_ H]|[]]]; [left; auto|right; lia].
      * rewrite Ha2, Hp2. exact Ho1.
      * rewrite Ha2. exact Hs1.
      * exact Hk2.
      * rewrite fold_app_off. lia.
    + (* more to eat: the block must have been filled *)
      assert (Hfull : n = bs - blen (cur s)) by (unfold n; lia).
      apply IH.
      * lia.
      * (* the block was filled, so s2's current block is empty *)
        assert (Hb2 : blen (cur s2) = 0).
        { unfold s2. assert (E : bs - blen (cur s1) =? 0 = true) by (apply Z.eqb_eq; unfold s1; cbn; lia).
          rewrite E, cur_next_block. reflexivity. }
        rewrite Hb2.
        replace (left - n + 0) with (left + blen (cur s) + (-1) * bs) by lia.
        rewrite Z.div_add by lia. lia.
      * intros y. rewrite Ha2, Hp2. apply Hc1.
      * rewrite Ha2, Hp2; exact Ho1.
      * rewrite Ha2; exact Hs1.
      * exact Hk2.
      * exact Hoff2.
Qed.

(* well-formed section list: lengths are non-negative *)
Definition wf_secs (l : list section) : Prop := Forall (fun s => 0 <= slen s) l.

Lemma secs_loop_inv bs : 0 < bs ->
  forall l pre s, wf_secs l -> Inv bs pre s ->
    exists s', secs_loop true bs l s = Some s' /\ Inv bs (pre ++ l) s'.
Proof.
  intros Hbs. induction l as [|x r IH]; intros pre s Hwf HI.
  - exists s. rewrite app_nil_r. auto.
  - inversion Hwf as [|? ? Hx Hr]; subst. cbn [secs_loop].
    destruct (spad x) eqn:Hp.
    + destruct (IH (pre ++ [x]) _ Hr (inv_pad bs pre s x Hbs Hx Hp HI)) as (s' & E & HI').
      exists s'. rewrite <- app_assoc in HI'. auto.
    + destruct HI as [Hc Ho Hs Hk Hoff].
      destruct (consume_inv bs pre x Hbs Hp (fuel_for bs (slen x)) s (slen x)) as (s1 & E1 & HI1); auto.
      * lia.
      * unfold fuel_for. rewrite Nat2Z.inj_add, Z2Nat.id by (apply Z.div_pos; lia).
        assert ((slen x + blen (cur s)) / bs <= slen x / bs + 1).
        { replace (slen x + blen (cur s)) with (blen (cur s) + slen x) by lia.
          assert (blen (cur s) + slen x <= slen x + 1 * bs) by lia.
          apply Z.div_le_mono with (c := bs) in H; [|lia]. rewrite Z.div_add in H by lia. lia. }
        lia.
      * intros y. rewrite Hc. split; [tauto|]. intros [H|H]; [auto|lia].
      * lia.
      * rewrite E1. destruct (IH (pre ++ [x]) s1 Hr HI1) as (s' & E & HI').
        exists s'. rewrite <- app_assoc in HI'. auto.
Qed.

Lemma inv_init bs : 0 < bs -> Inv bs [] {| out := []; cur := {| bbeg := 0; blen := 0 |}; poff := 0 |}.
Proof.
  intros Hbs. constructor; cbn.
  - intros x. split; [intros H; exfalso; eapply covered_nil; eauto|tauto].
  - unfold allb; cbn. lia.
  - intros b [].
  - lia.
  - reflexivity.
Qed.

(* the property: the blocks of a piece tile exactly its non-padding bytes *)
Theorem blocks_tile bs l : 0 < bs -> wf_secs l -> l <> [] ->
  exists bl, calc_blocks true bs l = Ok bl /\
    (forall x, covered bl x <-> nonpad_at l 0 x) /\
    ordered 0 bl (fold_left (fun a s => a + slen s) l 0) /\
    sized bs bl.
Proof.
  intros Hbs Hwf Hne. unfold calc_blocks. destruct l as [|l0 lr] eqn:El; [congruence|]. rewrite <- El in *.
  destruct (secs_loop_inv bs Hbs l [] _ Hwf (inv_init bs Hbs)) as (s & E & [Hc Ho Hs Hk Hoff]).
  rewrite E. eexists; split; [reflexivity|].
  assert (Hout : out (next_block true s) = allb s).
  { unfold next_block, allb. destruct (blen (cur s) =? 0); cbn; [rewrite app_nil_r|]; reflexivity. }
  rewrite Hout. cbn in *. rewrite <- Hoff. auto.
Qed.

(* the pinned tree violates it: the witness is the replay *)
Theorem blocks_tile_refuted :
  exists bs l bl, 0 < bs /\ wf_secs l /\ calc_blocks false bs l = Ok bl /\
    ~ (forall x, covered bl x <-> nonpad_at l 0 x).
Proof.
  exists 16384, [S_ 16384 false; S_ 1000 true; S_ 5000 false].
  eexists. split; [lia|]. split; [repeat constructor; cbn; lia|]. split; [vm_compute; reflexivity|].
  intros H. specialize (H 16384). destruct H as [H _].
  assert (Hc : covered [{| bbeg := 0; blen := 16384 |}; {| bbeg := 16384; blen := 5000 |}] 16384).
  { exists {| bbeg := 16384; blen := 5000 |}. split; [right; left; reflexivity|cbn; lia]. }
  apply H in Hc. cbn in Hc. intuition (try discriminate; try lia).
Qed.

Example blocks_tile_nonvacuous : wf_secs [S_ 0 false; S_ 20 false; S_ 3 true; S_ 9 false].
Proof. repeat constructor; cbn; lia. Qed.



(* Proofs about the web-seed half of the piece picker (PickerWs.v): the owner index and the
   downloader ranges describe each other in every reachable state, hence ranges of different web
   seeds never overlap and none of the ownership assertions of the Go code can fire; every answer
   the code can give in web-seed mode is a sound pick; the peer-half invariants survive. *)
From RainV Require Import Lib Picker PickerProofs PickerWs.
From Coq Require Import Lia ZArith List Bool.
Import ListNotations.
Open Scope Z_scope.

(* ---------- lists ---------- *)
Lemma in_zrange b e j : In j (zrange b e) <-> b <= j < e.
Proof.
  unfold zrange. rewrite in_map_iff. split.
  - intros (k & <- & Hk). apply in_seq in Hk. lia.
  - intros H. exists (Z.to_nat (j - b)). split; [lia|]. apply in_seq. lia.
Qed.

Lemma nth_map_combine {A} (f : Z * A -> A) (l : list A) (d : A) : forall (a n : nat), (n < length l)%nat ->
  nth n (map f (combine (map Z.of_nat (seq a (length l))) l)) d = f (Z.of_nat (a + n), nth n l d).
Proof.
  induction l as [|x r IH]; intros a n H; cbn [length] in H; [lia|].
  cbn [length seq map combine]. destruct n as [|n]; cbn [nth].
  - rewrite Nat.add_0_r. reflexivity.
  - rewrite IH by lia. replace (a + S n)%nat with (S a + n)%nat by lia. reflexivity.
Qed.

Lemma length_set_owner_range ow b e v : length (set_owner_range ow b e v) = length ow.
Proof.
  unfold set_owner_range, zseq. rewrite map_length, combine_length, map_length, seq_length. lia.
Qed.

Lemma nth_set_owner_range ow b e v j : 0 <= j ->
  nth (Z.to_nat j) (set_owner_range ow b e v) None =
  if (j <? zlen ow) && (b <=? j) && (j <? e) then v else nth (Z.to_nat j) ow None.
Proof.
  intros Hj. unfold zlen. destruct (j <? Z.of_nat (length ow)) eqn:E.
  - unfold set_owner_range, zseq. rewrite (nth_map_combine _ ow None 0 (Z.to_nat j)) by lia.
    cbn [fst snd Nat.add]. rewrite Z2Nat.id by lia. cbn [andb]. reflexivity.
  - cbn [andb]. rewrite !nth_overflow; [reflexivity| |]; rewrite ?length_set_owner_range; lia.
Qed.

Lemma oz_eqb_eq a b : oz_eqb a b = true <-> a = b.
Proof. destruct a, b; cbn; split; intros H; try discriminate; try reflexivity; [f_equal; lia|inversion H; lia]. Qed.

(* ---------- state access ---------- *)
Lemma get_owner_set s b e v j : 0 <= j ->
  get_owner (with_owner s (set_owner_range (owner s) b e v)) j =
  if (j <? zlen (owner s)) && (b <=? j) && (j <? e) then v else get_owner s j.
Proof. intros Hj. unfold get_owner. cbn [owner with_owner]. apply nth_set_owner_range. exact Hj. Qed.

Lemma get_src_set_same s k v : 0 <= k < zlen (srcs s) -> get_src (set_src s k v) k = v.
Proof. intros H. unfold get_src, set_src, zlen in *. cbn [srcs]. rewrite nth_upd_nth_same by lia. reflexivity. Qed.
Lemma get_src_set_other s k k' v : 0 <= k -> 0 <= k' -> k <> k' -> get_src (set_src s k v) k' = get_src s k'.
Proof. intros H1 H2 H3. unfold get_src, set_src. cbn [srcs]. apply nth_upd_nth_other. lia. Qed.
Lemma zlen_srcs_set s k v : zlen (srcs (set_src s k v)) = zlen (srcs s).
Proof. unfold set_src, zlen. cbn [srcs]. rewrite length_upd_nth. reflexivity. Qed.

Lemma range_owned_spec s b e v : b < e -> range_owned s b e v = true ->
  0 <= b /\ e <= zlen (owner s) /\ forall j, b <= j < e -> get_owner s j = v.
Proof.
  intros Hlt H. unfold range_owned in H. destruct (e <=? b) eqn:E; [lia|]. cbn [orb] in H.
  apply andb_prop in H as [H H3]. apply andb_prop in H as [H1 H2].
  split; [lia|]. split; [lia|]. intros j Hj. rewrite forallb_forall in H3. apply oz_eqb_eq. apply H3. apply in_zrange. exact Hj.
Qed.
Lemma range_owned_intro s b e v : (e <= b \/ (0 <= b /\ e <= zlen (owner s) /\ forall j, b <= j < e -> get_owner s j = v)) ->
  range_owned s b e v = true.
Proof.
  intros [H|(H1 & H2 & H3)]; unfold range_owned.
  - replace (e <=? b) with true by lia. reflexivity.
  - apply orb_true_intro. right. apply andb_true_intro. split; [apply andb_true_intro; split; lia|].
    apply forallb_forall. intros j Hj. apply oz_eqb_eq. apply H3. apply in_zrange. exact Hj.
Qed.

(* ---------- the invariant ---------- *)
Record WInv (s : wpicker) : Prop := {
  w_len : length (owner s) = length (pieces (base s));
  w_own : forall i k, 0 <= i < npieces s -> get_owner s i = Some k ->
            0 <= k < zlen (srcs s) /\ exists d, get_src s k = Some d /\ d_begin d <= i < d_end d;
  w_rng : forall k d i, 0 <= k < zlen (srcs s) -> get_src s k = Some d -> d_begin d <= i < d_end d -> get_owner s i = Some k;
  w_dl : forall k d, 0 <= k < zlen (srcs s) -> get_src s k = Some d ->
            0 <= d_begin d /\ d_begin d <= d_cur d /\ d_cur d <= d_end d /\ d_begin d < d_end d /\ d_end d <= npieces s
}.

Lemma zlen_owner s : WInv s -> zlen (owner s) = npieces s.
Proof. intros I. unfold zlen, npieces, zlen. rewrite (w_len s I). reflexivity. Qed.

(* C09: ranges assigned to different web seeds never overlap *)
Theorem ranges_disjoint s k1 k2 d1 d2 : WInv s -> 0 <= k1 < zlen (srcs s) -> 0 <= k2 < zlen (srcs s) -> k1 <> k2 ->
  get_src s k1 = Some d1 -> get_src s k2 = Some d2 -> d_end d1 <= d_begin d2 \/ d_end d2 <= d_begin d1.
Proof.
  intros I H1 H2 Hne E1 E2.
  destruct (w_dl s I k1 d1 H1 E1) as (A1 & A2 & A3 & A4 & A5). destruct (w_dl s I k2 d2 H2 E2) as (B1 & B2 & B3 & B4 & B5).
  destruct (Z_le_gt_dec (d_end d1) (d_begin d2)) as [|G1]; [left; assumption|].
  destruct (Z_le_gt_dec (d_end d2) (d_begin d1)) as [|G2]; [right; assumption|].
  exfalso. set (i := Z.max (d_begin d1) (d_begin d2)).
  assert (O1 : get_owner s i = Some k1) by (apply (w_rng s I k1 d1); try assumption; unfold i; lia).
  assert (O2 : get_owner s i = Some k2) by (apply (w_rng s I k2 d2); try assumption; unfold i; lia).
  congruence.
Qed.

(* a state that differs from [s] only in the peer half, with the same number of pieces *)
Lemma winv_base s b : WInv s -> length (pieces b) = length (pieces (base s)) -> WInv (with_base s b).
Proof.
  intros I Hl. assert (Hn : npieces (with_base s b) = npieces s) by (unfold npieces, zlen; cbn [base with_base]; rewrite Hl; reflexivity).
  constructor.
  - cbn [owner with_base base]. rewrite Hl. apply (w_len s I).
  - intros i k Hi. rewrite Hn in Hi. exact (w_own s I i k Hi).
  - exact (w_rng s I).
  - intros k d Hk E. rewrite Hn. exact (w_dl s I k d Hk E).
Qed.

(* ---------- the peer half keeps the number of pieces ---------- *)
Lemma len_upd_piece s i f : length (pieces (upd_piece s i f)) = length (pieces s).
Proof. unfold upd_piece, with_pieces. cbn [pieces]. apply length_upd_nth. Qed.
Lemma len_handle_have s pe i : length (pieces (handle_have s pe i)) = length (pieces s).
Proof. unfold handle_have. destruct (mem pe _); [reflexivity|]. cbn [pieces]. apply len_upd_piece. Qed.
Lemma len_cancel s pe i : length (pieces (cancel_download s pe i)) = length (pieces s).
Proof. apply len_upd_piece. Qed.
Lemma len_remove_having s pe i : length (pieces (remove_having s pe i)) = length (pieces s).
Proof. unfold remove_having. destruct (mem pe _); [|reflexivity]. cbn [pieces]. apply len_upd_piece. Qed.
Lemma len_disconnect_go s pe : forall n, length (pieces (disconnect_go n s pe)) = length (pieces s).
Proof. induction n as [|n IH]; [reflexivity|]. cbn [disconnect_go]. rewrite len_remove_having, len_cancel. exact IH. Qed.
Lemma len_close_dl s pe : length (pieces (close_dl s pe)) = length (pieces s).
Proof. unfold close_dl. destruct (pe_piece _) as [[i af]|]; [|reflexivity]. cbn [with_peer pieces]. apply len_cancel. Qed.

Lemma pstep_len s o s' : pstep s o = Some s' -> length (pieces s') = length (pieces s).
Proof.
  intros H. destruct o as [pe i|pe i|pe|pe|pe|pe obs|pe|pe|i|i ok]; cbn [pstep] in H.
  - destruct (in_range s i); [|discriminate]. inversion H; subst. apply len_handle_have.
  - destruct (in_range s i); [|discriminate]. inversion H; subst. reflexivity.
  - destruct (pe_piece (get_peer (peers s) pe)) as [[i [|]]|]; inversion H; subst; rewrite ?len_upd_piece; reflexivity.
  - destruct (pe_piece (get_peer (peers s) pe)) as [[i [|]]|]; inversion H; subst; rewrite ?len_upd_piece; reflexivity.
  - destruct (pe_piece (get_peer (peers s) pe)) as [[i af]|]; [|inversion H; subst; reflexivity].
    destruct (pe_choking _); [inversion H; subst; reflexivity|]. destruct (mem pe _); [discriminate|]. inversion H; subst. apply len_upd_piece.
  - unfold pick_check in H. destruct (find_piece s pe) as [st eg]. destruct obs as [[i af]|].
    + destruct (pick_legal s st i af); [|discriminate]. inversion H; subst. cbn [with_peer pieces]. rewrite len_upd_piece. reflexivity.
    + destruct (pick_possible s st); [discriminate|]. inversion H; subst. reflexivity.
  - inversion H; subst. apply len_close_dl.
  - inversion H; subst. cbn [pieces]. unfold handle_disconnect. rewrite len_disconnect_go. apply len_close_dl.
  - destruct (in_range s i); [|discriminate]. inversion H; subst. apply len_upd_piece.
  - destruct (in_range s i); [|discriminate]. inversion H; subst. apply len_upd_piece.
Qed.

Lemma len_assign b pe i af : length (pieces (assign_piece b pe i af)) = length (pieces b).
Proof. unfold assign_piece. cbn [with_peer pieces]. apply len_upd_piece. Qed.

(* ---------- findGaps: every gap is a non-empty run of pieces available for a web seed ---------- *)
Fixpoint consec (m : Z) (l : list Z) (n : Z) : Prop :=
  match l with [] => m = n | x :: r => x = m /\ consec (m + 1) r n end.

Lemma consec_zseq : forall N a, consec (Z.of_nat a) (map Z.of_nat (seq a N)) (Z.of_nat (a + N)).
Proof.
  induction N as [|N IH]; intros a; cbn [seq map consec]; [f_equal; lia|].
  split; [reflexivity|]. replace (Z.of_nat a + 1) with (Z.of_nat (S a)) by lia.
  replace (a + S N)%nat with (S a + N)%nat by lia. apply IH.
Qed.

Lemma consec_le : forall l m n, consec m l n -> m <= n.
Proof. induction l as [|x r IH]; intros m n H; cbn [consec] in H; [lia|]. destruct H as [_ H]. apply IH in H. lia. Qed.

Definition gap_ok (s : wpicker) (g : Z * Z) : Prop :=
  0 <= fst g /\ fst g < snd g /\ snd g <= npieces s /\ forall i, fst g <= i < snd g -> avail_ws s i = true.

Lemma gaps_go_ok s : forall idx m ingap b, 0 <= m -> consec m idx (npieces s) ->
  (ingap = true -> 0 <= b /\ b < m /\ forall i, b <= i < m -> avail_ws s i = true) ->
  forall g, In g (gaps_go s idx ingap b) -> gap_ok s g.
Proof.
  induction idx as [|x r IH]; intros m ingap b Hm Hc Hin g Hg; cbn [gaps_go consec] in *.
  - destruct ingap; [|destruct Hg]. destruct Hg as [<-|[]]. destruct (Hin eq_refl) as (A & B & C).
    subst m. unfold gap_ok. cbn [fst snd]. repeat split; try lia. exact C.
  - destruct Hc as [-> Hc]. destruct ingap; cbn [negb] in Hg.
    + destruct (Hin eq_refl) as (A & B & C). destruct (avail_ws s m) eqn:Ea; cbn [negb] in Hg.
      * destruct (m - b =? maxws s).
        -- destruct Hg as [<-|Hg].
           ++ unfold gap_ok. cbn [fst snd]. pose proof (consec_le _ _ _ Hc).
              repeat split; try lia. exact C.
           ++ eapply (IH (m + 1) true m); try eassumption; [lia|]. intros _. repeat split; try lia.
              intros i Hi. assert (i = m) by lia. subst. exact Ea.
        -- eapply (IH (m + 1) true b); try eassumption; [lia|]. intros _. repeat split; try lia.
           intros i Hi. destruct (Z.eq_dec i m) as [->|]; [exact Ea|apply C; lia].
      * destruct Hg as [<-|Hg].
        -- unfold gap_ok. cbn [fst snd]. pose proof (consec_le _ _ _ Hc).
           repeat split; try lia. exact C.
        -- eapply (IH (m + 1) false b); try eassumption; [lia|]. intros; discriminate.
    + destruct (avail_ws s m) eqn:Ea.
      * eapply (IH (m + 1) true m); try eassumption; [lia|]. intros _. repeat split; try lia.
        intros i Hi. assert (i = m) by lia. subst. exact Ea.
      * eapply (IH (m + 1) false b); try eassumption; [lia|]. intros; discriminate.
Qed.

Lemma find_gaps_ok s g : In g (find_gaps s) -> gap_ok s g.
Proof.
  unfold find_gaps. apply (gaps_go_ok s _ 0 false 0); [lia| |intros; discriminate].
  unfold zseq, npieces, zlen. pose proof (consec_zseq (length (pieces (base s))) 0) as H. cbn [Z.of_nat Nat.add] in H. exact H.
Qed.

(* ---------- releasing the tail [lo, End) of one source ---------- *)
Lemma winv_truncate s s' k d lo v' : WInv s -> 0 <= k < zlen (srcs s) -> get_src s k = Some d ->
  d_begin d <= lo <= d_end d ->
  base s' = base s -> length (owner s') = length (owner s) -> zlen (srcs s') = zlen (srcs s) ->
  (forall j, 0 <= j -> get_owner s' j = if (lo <=? j) && (j <? d_end d) then None else get_owner s j) ->
  (forall k', 0 <= k' -> get_src s' k' = if k' =? k then v' else get_src s k') ->
  ((v' = None /\ lo = d_begin d) \/ (v' = Some {| d_begin := d_begin d; d_end := lo; d_cur := d_cur d |} /\ d_cur d < lo)) ->
  WInv s'.
Proof.
  intros I Hk E Hlo Hb Hl Hn Ho Hs Hv.
  destruct (w_dl s I k d Hk E) as (D1 & D2 & D3 & D4 & D5).
  assert (Hnp : npieces s' = npieces s) by (unfold npieces; rewrite Hb; reflexivity).
  constructor.
  - rewrite Hl, Hb. apply (w_len s I).
  - intros i k0 Hi Ho'. rewrite Hnp in Hi. rewrite Ho in Ho' by lia.
    destruct ((lo <=? i) && (i <? d_end d)) eqn:Er; [discriminate|].
    destruct (w_own s I i k0 Hi Ho') as (K0 & d0 & E0 & R0). rewrite Hn. split; [exact K0|].
    rewrite Hs by lia. destruct (k0 =? k) eqn:Ek.
    + assert (k0 = k) by lia. subst k0. rewrite E in E0. inversion E0; subst d0.
      destruct Hv as [[-> ->]|[-> Hc]]; [lia|]. eexists. split; [reflexivity|]. cbn [d_begin d_end]. lia.
    + exists d0. split; assumption.
  - intros k0 d0 i K0 E0 R0. rewrite Hn in K0. rewrite Hs in E0 by lia. rewrite Ho.
    2:{ destruct (k0 =? k) eqn:Ek.
        - destruct Hv as [[-> _]|[-> _]]; [discriminate|]. inversion E0; subst d0. cbn [d_begin d_end] in R0. lia.
        - destruct (w_dl s I k0 d0 K0 E0) as (A & _). lia. }
    destruct (k0 =? k) eqn:Ek.
    + assert (k0 = k) by lia. subst k0. destruct Hv as [[-> _]|[-> Hc]]; [discriminate|]. inversion E0; subst d0. cbn [d_begin d_end] in R0.
      replace ((lo <=? i) && (i <? d_end d)) with false by lia. apply (w_rng s I k d); [assumption|assumption|lia].
    + pose proof (w_rng s I k0 d0 i K0 E0 R0) as O.
      destruct ((lo <=? i) && (i <? d_end d)) eqn:Er; [|exact O].
      assert (O2 : get_owner s i = Some k) by (apply (w_rng s I k d); [assumption|assumption|lia]). rewrite O in O2. inversion O2. lia.
  - intros k0 d0 K0 E0. rewrite Hn in K0. rewrite Hs in E0 by lia. rewrite Hnp. destruct (k0 =? k) eqn:Ek.
    + destruct Hv as [[-> _]|[-> Hc]]; [discriminate|]. inversion E0; subst d0. cbn [d_begin d_end d_cur]. lia.
    + exact (w_dl s I k0 d0 K0 E0).
Qed.

Lemma get_src_views s ow k v : 0 <= k < zlen (srcs s) ->
  forall k', 0 <= k' -> get_src (set_src (with_owner s ow) k v) k' = if k' =? k then v else get_src s k'.
Proof.
  intros Hk k' Hk'. destruct (k' =? k) eqn:E.
  - assert (k' = k) by lia. subst. apply (get_src_set_same (with_owner s ow)). exact Hk.
  - rewrite get_src_set_other by lia. reflexivity.
Qed.

(* CloseWebseedDownloader never hits its assertion and keeps the invariant *)
Lemma close_ws_ok s k : WInv s -> 0 <= k < zlen (srcs s) ->
  exists s', close_ws s k = Some s' /\ WInv s' /\ base s' = base s /\ zlen (srcs s') = zlen (srcs s) /\
             get_src s' k = None /\ (forall k', 0 <= k' -> k' <> k -> get_src s' k' = get_src s k').
Proof.
  intros I Hk. unfold close_ws. destruct (get_src s k) as [d|] eqn:E.
  2:{ exists s. split; [reflexivity|]. split; [exact I|]. split; [reflexivity|]. split; [reflexivity|]. split; [exact E|]. reflexivity. }
  destruct (w_dl s I k d Hk E) as (D1 & D2 & D3 & D4 & D5).
  rewrite range_owned_intro.
  2:{ right. rewrite (zlen_owner s I). repeat split; try lia. intros j Hj. apply (w_rng s I k d); assumption. }
  eexists. split; [reflexivity|].
  pose proof (get_src_views s (set_owner_range (owner s) (d_begin d) (d_end d) None) k None Hk) as V.
  split; [|split; [reflexivity|split; [rewrite zlen_srcs_set; reflexivity|split]]].
  - apply (winv_truncate s _ k d (d_begin d) None I Hk E); try lia; try reflexivity.
    + cbn [owner set_src with_owner]. apply length_set_owner_range.
    + rewrite zlen_srcs_set; reflexivity.
    + intros j Hj. change (get_owner (set_src (with_owner s (set_owner_range (owner s) (d_begin d) (d_end d) None)) k None) j)
        with (get_owner (with_owner s (set_owner_range (owner s) (d_begin d) (d_end d) None)) j).
      rewrite get_owner_set by exact Hj. rewrite (zlen_owner s I).
      destruct (j <? npieces s) eqn:E1; cbn [andb]; [reflexivity|].
      destruct ((d_begin d <=? j) && (j <? d_end d)) eqn:E2; [|reflexivity]. unfold get_owner. rewrite nth_overflow; [reflexivity|].
      pose proof (zlen_owner s I) as Z0. unfold zlen in Z0. lia.
    + exact V.
    + left. split; reflexivity.
  - rewrite V by lia. rewrite Z.eqb_refl. reflexivity.
  - intros k' H1 H2. rewrite V by lia. replace (k' =? k) with false by lia. reflexivity.
Qed.

Lemma get_owner_over s j : WInv s -> npieces s <= j -> get_owner s j = None.
Proof.
  intros I H. unfold get_owner. apply nth_overflow. pose proof (zlen_owner s I) as Z0. unfold zlen in Z0.
  unfold npieces, zlen in *. lia.
Qed.

(* WebseedStopAt inside the range of its source never hits its assertion and keeps the invariant *)
Lemma stop_at_ok s k d i : WInv s -> 0 <= k < zlen (srcs s) -> get_src s k = Some d -> d_begin d <= i < d_end d ->
  exists s' c, stop_at s k i = Some (s', c) /\ WInv s' /\ base s' = base s /\ zlen (srcs s') = zlen (srcs s) /\
    (forall k', 0 <= k' -> k' <> k -> get_src s' k' = get_src s k') /\
    (forall j, i <= j < d_end d -> get_owner s' j = None) /\
    (d_cur d < i -> c = false /\ get_src s' k = Some {| d_begin := d_begin d; d_end := i; d_cur := d_cur d |}) /\
    (i <= d_cur d -> c = true /\ get_src s' k = None).
Proof.
  intros I Hk E Hi. destruct (w_dl s I k d Hk E) as (D1 & D2 & D3 & D4 & D5).
  unfold stop_at. rewrite E. rewrite range_owned_intro.
  2:{ right. rewrite (zlen_owner s I). repeat split; try lia. intros j Hj. apply (w_rng s I k d); [assumption|assumption|lia]. }
  set (d1 := {| d_begin := d_begin d; d_end := i; d_cur := d_cur d |}).
  set (ow1 := set_owner_range (owner s) i (d_end d) None).
  set (s1 := set_src (with_owner s ow1) k (Some d1)).
  pose proof (get_src_views s ow1 k (Some d1) Hk) as V1. fold s1 in V1.
  assert (O1 : forall j, 0 <= j -> get_owner s1 j = if (i <=? j) && (j <? d_end d) then None else get_owner s j).
  { intros j Hj. change (get_owner s1 j) with (get_owner (with_owner s ow1) j). unfold ow1. rewrite get_owner_set by exact Hj.
    rewrite (zlen_owner s I). destruct (j <? npieces s) eqn:E1; cbn [andb]; [reflexivity|].
    destruct ((i <=? j) && (j <? d_end d)); [|reflexivity]. rewrite get_owner_over; [reflexivity|exact I|lia]. }
  assert (L1 : length (owner s1) = length (owner s)) by (unfold s1, ow1; cbn [owner set_src with_owner]; apply length_set_owner_range).
  assert (N1 : zlen (srcs s1) = zlen (srcs s)) by (unfold s1; rewrite zlen_srcs_set; reflexivity).
  destruct (d_cur d >=? i) eqn:Ec.
  - (* closed *)
    unfold close_ws. rewrite (V1 k) by lia. rewrite Z.eqb_refl. cbn [d_begin d_end d1].
    rewrite range_owned_intro.
    2:{ destruct (Z.eq_dec i (d_begin d)) as [->|Hne]; [left; lia|]. right.
        assert (Z1 : zlen (owner s1) = npieces s) by (unfold zlen; rewrite L1; apply (zlen_owner s I)).
        rewrite Z1. repeat split; try lia. intros j Hj. rewrite O1 by lia. replace ((i <=? j) && (j <? d_end d)) with false by lia.
        apply (w_rng s I k d); [assumption|assumption|lia]. }
    cbn [option_map].
    set (s2 := set_src (with_owner s1 (set_owner_range (owner s1) (d_begin d) i None)) k None).
    assert (Hk1 : 0 <= k < zlen (srcs s1)) by lia.
    pose proof (get_src_views s1 (set_owner_range (owner s1) (d_begin d) i None) k None Hk1) as V2. fold s2 in V2.
    assert (O2 : forall j, 0 <= j -> get_owner s2 j = if (d_begin d <=? j) && (j <? d_end d) then None else get_owner s j).
    { intros j Hj. change (get_owner s2 j) with (get_owner (with_owner s1 (set_owner_range (owner s1) (d_begin d) i None)) j).
      rewrite get_owner_set by exact Hj. rewrite O1 by exact Hj.
      assert (Z1 : zlen (owner s1) = npieces s) by (unfold zlen; rewrite L1; apply (zlen_owner s I)). rewrite Z1.
      destruct (j <? npieces s) eqn:E1; cbn [andb].
      - destruct (d_begin d <=? j) eqn:E2, (j <? i) eqn:E3, (i <=? j) eqn:E4, (j <? d_end d) eqn:E5; cbn [andb]; try reflexivity; lia.
      - rewrite get_owner_over by (try exact I; lia). destruct ((i <=? j) && (j <? d_end d)), ((d_begin d <=? j) && (j <? d_end d)); reflexivity. }
    exists s2, true. split; [reflexivity|]. split; [|split; [reflexivity|split; [|split; [|split; [|split]]]]].
    + apply (winv_truncate s s2 k d (d_begin d) None I Hk E); try lia; try reflexivity.
      * unfold s2. cbn [owner set_src with_owner]. rewrite length_set_owner_range. exact L1.
      * unfold s2. rewrite zlen_srcs_set. exact N1.
      * exact O2.
      * intros k' Hk'. rewrite V2 by exact Hk'. destruct (k' =? k) eqn:Ek; [reflexivity|]. rewrite V1 by exact Hk'. rewrite Ek. reflexivity.
      * left. split; reflexivity.
    + unfold s2. rewrite zlen_srcs_set. exact N1.
    + intros k' H1 H2. rewrite V2 by exact H1. replace (k' =? k) with false by lia. rewrite V1 by exact H1. replace (k' =? k) with false by lia. reflexivity.
    + intros j Hj. rewrite O2 by lia. replace ((d_begin d <=? j) && (j <? d_end d)) with true by lia. reflexivity.
    + intros Hlt. lia.
    + intros _. split; [reflexivity|]. rewrite V2 by lia. rewrite Z.eqb_refl. reflexivity.
  - exists s1, false. split; [reflexivity|]. split; [|split; [reflexivity|split; [exact N1|split; [|split; [|split]]]]].
    + apply (winv_truncate s s1 k d i (Some d1) I Hk E); try lia; try reflexivity; try assumption.
      right. split; [reflexivity|lia].
    + intros k' H1 H2. rewrite V1 by exact H1. replace (k' =? k) with false by lia. reflexivity.
    + intros j Hj. rewrite O1 by lia. replace ((i <=? j) && (j <? d_end d)) with true by lia. reflexivity.
    + intros _. split; [reflexivity|]. rewrite V1 by lia. rewrite Z.eqb_refl. reflexivity.
    + intros Hle. lia.
Qed.

(* ---------- PickWebseed ---------- *)
Lemma dl_srcs_in s k d : In (k, d) (dl_srcs s) -> 0 <= k < zlen (srcs s) /\ get_src s k = Some d.
Proof.
  unfold dl_srcs, get_src, zseq, zlen. generalize (srcs s). intros l.
  assert (G : forall a, In (k, d) (flat_map (fun kd : Z * option wdl => match snd kd with Some d0 => [(fst kd, d0)] | None => [] end)
                                           (combine (map Z.of_nat (seq a (length l))) l)) ->
                        Z.of_nat a <= k < Z.of_nat (a + length l) /\ nth (Z.to_nat k - a) l None = Some d).
  { induction l as [|x r IH]; intros a H; cbn [length seq map combine flat_map] in H; [destruct H|].
    apply in_app_or in H as [H|H].
    - cbn [snd fst] in H. destruct x as [d0|]; [|destruct H]. destruct H as [H|[]]. inversion H; subst.
      split; [cbn [length]; lia|]. replace (Z.to_nat (Z.of_nat a) - a)%nat with 0%nat by lia. reflexivity.
    - apply IH in H as [H1 H2]. split; [cbn [length]; lia|].
      replace (Z.to_nat k - a)%nat with (S (Z.to_nat k - S a))%nat by lia. exact H2. }
  intros H. apply (G 0%nat) in H as [H1 H2]. split; [lia|]. rewrite Nat.sub_0_r in H2. exact H2.
Qed.

Lemma winv_assign s k b e : WInv s -> 0 <= k < zlen (srcs s) -> get_src s k = None ->
  0 <= b -> b < e -> e <= npieces s -> (forall j, b <= j < e -> get_owner s j = None) ->
  WInv (set_src (with_owner s (set_owner_range (owner s) b e (Some k))) k (Some {| d_begin := b; d_end := e; d_cur := b |})).
Proof.
  intros I Hk E Hb Hbe He Hfree.
  set (d1 := {| d_begin := b; d_end := e; d_cur := b |}).
  set (s1 := set_src (with_owner s (set_owner_range (owner s) b e (Some k))) k (Some d1)).
  pose proof (get_src_views s (set_owner_range (owner s) b e (Some k)) k (Some d1) Hk) as V. fold s1 in V.
  assert (O : forall j, 0 <= j -> get_owner s1 j = if (b <=? j) && (j <? e) then Some k else get_owner s j).
  { intros j Hj. change (get_owner s1 j) with (get_owner (with_owner s (set_owner_range (owner s) b e (Some k))) j).
    rewrite get_owner_set by exact Hj. rewrite (zlen_owner s I). destruct (j <? npieces s) eqn:E1; cbn [andb]; [reflexivity|].
    replace ((b <=? j) && (j <? e)) with false by lia. reflexivity. }
  assert (N : zlen (srcs s1) = zlen (srcs s)) by (unfold s1; rewrite zlen_srcs_set; reflexivity).
  assert (Hnp : npieces s1 = npieces s) by reflexivity.
  constructor.
  - unfold s1. cbn [owner set_src with_owner base]. rewrite length_set_owner_range. apply (w_len s I).
  - intros i k0 Hi Ho. rewrite Hnp in Hi. rewrite O in Ho by lia. rewrite N. destruct ((b <=? i) && (i <? e)) eqn:Er.
    + inversion Ho; subst k0. split; [exact Hk|]. exists d1. split; [rewrite V by lia; rewrite Z.eqb_refl; reflexivity|cbn [d1 d_begin d_end]; lia].
    + destruct (w_own s I i k0 Hi Ho) as (K0 & d0 & E0 & R0). split; [exact K0|]. exists d0. split; [|exact R0].
      rewrite V by lia. destruct (k0 =? k) eqn:Ek; [assert (k0 = k) by lia; subst; congruence|exact E0].
  - intros k0 d0 i K0 E0 R0. rewrite N in K0. rewrite V in E0 by lia. destruct (k0 =? k) eqn:Ek.
    + inversion E0; subst d0. cbn [d1 d_begin d_end] in R0. assert (k0 = k) by lia. subst k0.
      rewrite O by lia. replace ((b <=? i) && (i <? e)) with true by lia. reflexivity.
    + destruct (w_dl s I k0 d0 K0 E0) as (A & _). rewrite O by lia. pose proof (w_rng s I k0 d0 i K0 E0 R0) as O0.
      destruct ((b <=? i) && (i <? e)) eqn:Er; [|exact O0]. rewrite Hfree in O0 by lia. discriminate.
  - intros k0 d0 K0 E0. rewrite N in K0. rewrite V in E0 by lia. rewrite Hnp. destruct (k0 =? k) eqn:Ek.
    + inversion E0; subst d0. cbn [d1 d_begin d_end d_cur]. lia.
    + exact (w_dl s I k0 d0 K0 E0).
Qed.

Lemma avail_ws_free s i : avail_ws s i = true -> get_owner s i = None /\ open_ (get_piece (base s) i) = true.
Proof. unfold avail_ws. intros H. apply andb_prop in H as [H1 H2]. split; [|exact H1]. destruct (get_owner s i); [discriminate|reflexivity]. Qed.

Lemma steal_begin_gt d : 0 <= d_cur d -> steal_begin d < d_end d -> d_cur d < steal_begin d.
Proof. unfold steal_begin. intros H1 H2. pose proof (Z.div_mod (d_cur d + d_end d + 1) 2 ltac:(lia)). pose proof (Z.mod_pos_bound (d_cur d + d_end d + 1) 2 ltac:(lia)). lia. Qed.

(* the answer of findPieceRangeForWebseed, whichever of the legal ones it is, is a non-empty range of
   pieces inside the torrent none of which has a web-seed owner afterwards *)
Lemma ws_check_ok s obs s1 : WInv s -> ws_check s obs = Some s1 ->
  WInv s1 /\ base s1 = base s /\ zlen (srcs s1) = zlen (srcs s) /\
  (forall k, 0 <= k -> get_src s k = None -> get_src s1 k = None) /\
  (forall b e, obs = Some (b, e) -> 0 <= b /\ b < e /\ e <= npieces s /\ forall j, b <= j < e -> get_owner s1 j = None).
Proof.
  intros I H. unfold ws_check in H.
  assert (Triv : forall b e, (0 <= b /\ b < e /\ e <= npieces s /\ (forall j, b <= j < e -> avail_ws s j = true)) ->
                 WInv s /\ base s = base s /\ zlen (srcs s) = zlen (srcs s) /\
                 (forall k, 0 <= k -> get_src s k = None -> get_src s k = None) /\
                 (forall b0 e0, Some (b, e) = Some (b0, e0) -> 0 <= b0 /\ b0 < e0 /\ e0 <= npieces s /\ forall j, b0 <= j < e0 -> get_owner s j = None)).
  { intros b e (A & B & C & D). split; [exact I|]. split; [reflexivity|]. split; [reflexivity|]. split; [auto|].
    intros b0 e0 Hbe. inversion Hbe; subst. repeat split; try lia. intros j Hj. apply avail_ws_free. apply D. exact Hj. }
  destruct (find_gaps s) as [|g0 gs] eqn:Eg.
  - destruct (dl_srcs s) as [|x xs] eqn:Ed.
    + destruct obs; [discriminate|]. inversion H; subst. split; [exact I|]. split; [reflexivity|]. split; [reflexivity|]. split; [auto|]. intros; discriminate.
    + rewrite <- Ed in H. destruct obs as [[b e]|].
      * match type of H with context [find ?f ?l] => destruct (find f l) as [[k d]|] eqn:Ef; [|discriminate] end.
        apply find_some in Ef as [Hin Hc]. apply filter_In in Hin as [Hin _]. apply dl_srcs_in in Hin as [Hk E].
        cbn [snd] in Hc. apply andb_prop in Hc as [Hc Hc3]. apply andb_prop in Hc as [Hc1 Hc2].
        assert (e = d_end d) by lia. assert (b = steal_begin d) by lia. subst e b.
        destruct (w_dl s I k d Hk E) as (D1 & D2 & D3 & D4 & D5).
        assert (Hgt : d_cur d < steal_begin d) by (apply steal_begin_gt; lia).
        destruct (stop_at_ok s k d (steal_begin d) I Hk E ltac:(lia)) as (s' & c & Es & I' & B' & N' & S' & F' & C1 & _).
        rewrite Es in H. cbn [option_map fst] in H. inversion H; subst s1. split; [exact I'|]. split; [exact B'|]. split; [exact N'|]. split.
        -- intros k0 Hk0 E0. rewrite S'; [exact E0|exact Hk0|]. intros ->. congruence.
        -- intros b0 e0 Hbe. inversion Hbe; subst. repeat split; try lia. exact F'.
      * destruct (existsb _ _); [|discriminate]. inversion H; subst. split; [exact I|]. split; [reflexivity|]. split; [reflexivity|]. split; [auto|]. intros; discriminate.
  - destruct obs as [[b e]|]; [|discriminate].
    assert (G0 : gap_ok s g0) by (apply find_gaps_ok; rewrite Eg; left; reflexivity).
    destruct (sequential (base s)).
    + destruct (first_tail s) as [i|] eqn:Et.
      * destruct ((b =? i) && (e =? i + 1)) eqn:Ebe; [|discriminate]. inversion H; subst s1.
        assert (b = i) by lia. assert (e = i + 1) by lia. subst b e. apply Triv.
        unfold first_tail in Et. apply find_some in Et as [Hin Hc]. apply andb_prop in Hc as [_ Hc].
        unfold zseq in Hin. apply in_map_iff in Hin as (n & <- & Hn). apply in_seq in Hn. unfold npieces, zlen.
        repeat split; try lia. intros j Hj. assert (j = Z.of_nat n) by lia. subst. exact Hc.
      * destruct ((b =? fst g0) && (e =? snd g0)) eqn:Ebe; [|discriminate]. inversion H; subst s1.
        assert (b = fst g0) by lia. assert (e = snd g0) by lia. subst b e. apply Triv. destruct G0 as (A & B & C & D). auto.
    + match type of H with context [existsb ?f ?l] => destruct (existsb f l) eqn:Ee; [|discriminate] end. inversion H; subst s1.
      apply existsb_exists in Ee as (g & Hin & Hc). apply andb_prop in Hc as [Hc _]. apply andb_prop in Hc as [Hc1 Hc2].
      assert (b = fst g) by lia. assert (e = snd g) by lia. subst b e. apply Triv.
      assert (G : gap_ok s g) by (apply find_gaps_ok; rewrite Eg; exact Hin). destruct G as (A & B & C & D). auto.
Qed.

(* PickWebseed + startWebseedDownloader: "already downloading from webseed url" cannot fire *)
Lemma pick_webseed_ok s k obs s' : WInv s -> pick_webseed s k obs = Some s' ->
  WInv s' /\ base s' = base s /\ zlen (srcs s') = zlen (srcs s).
Proof.
  intros I H. unfold pick_webseed in H. destruct (src_in_range s k) eqn:Er; [|discriminate]. cbn [negb] in H.
  unfold src_in_range in Er. destruct (get_src s k) eqn:E; [discriminate|].
  destruct (ws_check s obs) as [s1|] eqn:Ec; [|discriminate].
  destruct (ws_check_ok s obs s1 I Ec) as (I1 & B1 & N1 & S1 & R1).
  destruct obs as [[b e]|]; [|inversion H; subst; auto].
  destruct (R1 b e eq_refl) as (A & B & C & D).
  destruct ((b <? e) && range_owned s1 b e None); [|discriminate]. inversion H; subst s'.
  split; [|split; [exact B1|rewrite zlen_srcs_set; exact N1]].
  apply winv_assign; try assumption; try lia.
  - apply S1; [lia|exact E].
  - unfold npieces. rewrite B1. exact C.
Qed.

Lemma pick_webseed_no_panic s obs s1 b e : WInv s -> ws_check s obs = Some s1 -> obs = Some (b, e) ->
  (b <? e) && range_owned s1 b e None = true.
Proof.
  intros I Ec ->. destruct (ws_check_ok s _ s1 I Ec) as (I1 & B1 & N1 & S1 & R1). destruct (R1 b e eq_refl) as (A & B & C & D).
  apply andb_true_intro. split; [lia|]. apply range_owned_intro. right. rewrite (zlen_owner s1 I1). unfold npieces. rewrite B1.
  split; [lia|]. split; [exact C|exact D].
Qed.

(* ---------- PickFor in web-seed mode ---------- *)
(* adding a download of piece i for an idle peer that has it keeps the peer-half invariant *)
Lemma assign_inv s pe i af : PInv s -> in_range s i = true -> In pe (Hv s i) -> Dl s pe = false ->
  zlen (R s i) < limit s -> PInv (assign_piece s pe i af).
Proof.
  intros I Hr Hhave Hdl Hlim. assert (Hi : 0 <= i) by (unfold in_range in Hr; lia).
  pose proof (dl_false_pp_none s pe I Hdl) as Hnone. unfold assign_piece.
  set (f := fun p => set_marks p (sadd pe (p_req p)) (p_snub p) (p_chok p)).
  destruct (upd_views s i f Hi Hr) as (V1 & V2 & V3).
  set (P := get_peer (peers s) pe).
  set (v := {| pe_choking := pe_choking P; pe_downloading := true; pe_af := pe_af P; pe_piece := Some (i, af) |}).
  assert (HR : forall j, 0 <= j -> R (with_peer (upd_piece s i f) pe v) j = if j =? i then sadd pe (R s i) else R s j).
  { intros j Hj. unfold R. change (get_piece (with_peer (upd_piece s i f) pe v) j) with (get_piece (upd_piece s i f) j).
    rewrite V1 by assumption. destruct (j =? i); reflexivity. }
  assert (HH : forall j, 0 <= j -> Hv (with_peer (upd_piece s i f) pe v) j = Hv s j).
  { intros j Hj. unfold Hv. change (get_piece (with_peer (upd_piece s i f) pe v) j) with (get_piece (upd_piece s i f) j).
    rewrite V1 by assumption. destruct (j =? i) eqn:E; [assert (j = i) by lia; subst; reflexivity|reflexivity]. }
  assert (HPP : forall q, PP (with_peer (upd_piece s i f) pe v) q = if q =? pe then Some (i, af) else PP s q).
  { intros q. unfold PP. cbn [with_peer peers]. rewrite V2. destruct (q =? pe) eqn:E.
    - assert (q = pe) by lia. subst. rewrite get_set_peer_same. reflexivity.
    - rewrite get_set_peer_other by lia. reflexivity. }
  assert (HD : forall q, Dl (with_peer (upd_piece s i f) pe v) q = if q =? pe then true else Dl s q).
  { intros q. unfold Dl. cbn [with_peer peers]. rewrite V2. destruct (q =? pe) eqn:E.
    - assert (q = pe) by lia. subst. rewrite get_set_peer_same. reflexivity.
    - rewrite get_set_peer_other by lia. reflexivity. }
  assert (Hrange : forall j, in_range (with_peer (upd_piece s i f) pe v) j = in_range s j).
  { intros j. change (in_range (with_peer (upd_piece s i f) pe v) j) with (in_range (upd_piece s i f) j). rewrite in_range_upd. reflexivity. }
  constructor.
  - intros j q Hj Hq. rewrite HR in Hq by assumption. rewrite HH by assumption. destruct (j =? i) eqn:E.
    + assert (j = i) by lia. subst j. apply in_sadd in Hq as [->|Hq]; [exact Hhave|eapply inv_a; eauto].
    + eapply inv_a; eauto.
  - intros j q Hj Hq. rewrite HR in Hq by assumption. rewrite Hrange, HPP. destruct (j =? i) eqn:E.
    + assert (j = i) by lia. subst j. apply in_sadd in Hq as [->|Hq].
      * rewrite Z.eqb_refl. split; [exact Hr|eauto].
      * destruct (inv_b s I i q Hi Hq) as (A & af' & B). split; [exact A|].
        destruct (q =? pe) eqn:Eq; [assert (q = pe) by lia; subst; congruence|eauto].
    + destruct (inv_b s I j q Hj Hq) as (A & af' & B). split; [exact A|].
      destruct (q =? pe) eqn:Eq; [assert (q = pe) by lia; subst; congruence|eauto].
  - intros q j a Hq. rewrite HPP in Hq. rewrite HD. destruct (q =? pe) eqn:Eq.
    + assert (q = pe) by lia. subst q. inversion Hq; subst. split; [exact Hi|]. split; [|reflexivity].
      rewrite HR by assumption. rewrite Z.eqb_refl. apply in_sadd. left; reflexivity.
    + destruct (inv_c s I q j a Hq) as (A & B & C). split; [exact A|]. split; [|exact C].
      rewrite HR by assumption. destruct (j =? i) eqn:E; [assert (j = i) by lia; subst; apply in_sadd; right; exact B|exact B].
  - intros q Hq. rewrite HPP in Hq. rewrite HD. destruct (q =? pe); [discriminate|]. eapply inv_d; eauto.
  - intros j Hj. rewrite HR by assumption.
    match goal with |- context [limit ?x] => change (limit x) with (limit s) end.
    destruct (inv_e s I j Hj) as [A B]. destruct (j =? i) eqn:E.
    + assert (j = i) by lia. subst j. split; [pose proof (zlen_sadd_le pe (R s i)); unfold R in *; lia|apply nodup_sadd; exact B].
    + split; assumption.
Qed.

Lemma assign_av s pe i af : AvInv s -> AvInv (assign_piece s pe i af).
Proof. intros A. unfold AvInv, assign_piece. cbn [with_peer avail pieces]. rewrite count_upd_same_having by reflexivity. exact A. Qed.

Definition sound_pick (b : picker) (pe i : Z) : Prop :=
  in_range b i = true /\ open_ (get_piece b i) = true /\ In pe (p_having (get_piece b i)) /\ p_req (get_piece b i) = [].

Lemma peer_cand_spec s pe i : peer_cand s pe i = true -> In pe (p_having (get_piece (base s) i)) /\ p_req (get_piece (base s) i) = [].
Proof.
  unfold peer_cand. intros H. apply andb_prop in H as [H1 H2]. split; [apply mem_true; exact H2|].
  destruct (p_req _); [reflexivity|discriminate].
Qed.

Lemma gap_cands_in s pe l c : In (l, c) (gap_cands s pe) -> exists g, In g (find_gaps s) /\ gap_cand s pe g = Some c.
Proof.
  unfold gap_cands. intros H. apply in_flat_map in H as (g & Hg & Hin). exists g. split; [exact Hg|].
  destruct (gap_cand s pe g); [|destruct Hin]. destruct Hin as [Hin|[]]. inversion Hin; subst. reflexivity.
Qed.

Lemma gap_pick_sound s pe i : ws_gap_legal s pe i = true -> sound_pick (base s) pe i.
Proof.
  unfold ws_gap_legal. destruct (gap_cands s pe) as [|x r] eqn:E; [discriminate|]. intros H.
  apply existsb_exists in H as ([l c] & Hin & Hc). cbn [fst snd] in Hc. apply andb_prop in Hc as [_ Hc]. assert (c = i) by lia. subst c.
  rewrite <- E in Hin. apply gap_cands_in in Hin as (g & Hg & Hcand).
  apply find_gaps_ok in Hg. destruct Hg as (A & B & C & D). unfold gap_cand in Hcand. apply find_some in Hcand as [Hin Hc2].
  apply in_rev, in_zrange in Hin. destruct (avail_ws_free s i (D i Hin)) as [_ Ho]. destruct (peer_cand_spec s pe i Hc2) as [H1 H2].
  unfold sound_pick, in_range. fold (npieces s). repeat split; try assumption. lia.
Qed.

Lemma peer_steal_go_spec s pe : forall ds k i, peer_steal_go s pe ds = Some (k, i) ->
  exists d, In (k, d) ds /\ d_cur d < i < d_end d /\ steal_cand s pe i = true.
Proof.
  induction ds as [|[k0 d0] r IH]; intros k i H; cbn [peer_steal_go] in H; [discriminate|].
  destruct (remaining d0 =? 0).
  - apply IH in H as (d & A & B). exists d. split; [right; exact A|exact B].
  - match type of H with context [find ?f ?l] => destruct (find f l) as [j|] eqn:Ef end.
    + inversion H; subst. apply find_some in Ef as [Hin Hc]. apply in_rev, in_zrange in Hin. exists d0. split; [left; reflexivity|]. split; [lia|exact Hc].
    + apply IH in H as (d & A & B). exists d. split; [right; exact A|exact B].
Qed.

(* C09 in web-seed mode: whatever the picker answers for a peer is a piece that is neither done nor
   being written, that the peer has, that nobody is downloading, for an idle peer that unchokes us *)
Theorem ws_pick_sound s pe i af s' : WInv s -> downloading_ws s = true -> wpick_check s pe (Some (i, af)) = Some s' ->
  sound_pick (base s) pe i /\ pe_downloading (get_peer (peers (base s)) pe) = false /\ pe_choking (get_peer (peers (base s)) pe) = false.
Proof.
  intros I Hd H. unfold wpick_check in H. rewrite Hd in H.
  destruct (pe_downloading (get_peer (peers (base s)) pe)); [discriminate|].
  destruct (pe_choking (get_peer (peers (base s)) pe)); [discriminate|].
  split; [|split; reflexivity].
  destruct (gap_cands s pe) as [|x r] eqn:E.
  - destruct (peer_steal s pe) as [[k j]|] eqn:Es; [|discriminate].
    destruct ((i =? j) && _) eqn:Ec; [|discriminate]. apply andb_prop in Ec as [Ec _]. assert (i = j) by lia. subst j.
    unfold peer_steal in Es. apply peer_steal_go_spec in Es as (d & Hin & Hr & Hc). apply dl_srcs_in in Hin as [Hk Ek].
    destruct (w_dl s I k d Hk Ek) as (D1 & D2 & D3 & D4 & D5). unfold steal_cand in Hc.
    apply andb_prop in Hc as [Hc H3]. apply andb_prop in Hc as [H1 H2].
    unfold sound_pick, in_range. fold (npieces s). split; [lia|]. split; [exact H1|]. split; [apply mem_true; exact H2|].
    destruct (p_req _); [reflexivity|discriminate].
  - destruct (ws_gap_legal s pe i && _) eqn:Ec; [|discriminate].
    apply andb_prop in Ec as [Ec _]. apply gap_pick_sound. exact Ec.
Qed.

(* ---------- every operation keeps all three invariants ---------- *)
Definition Inv3 (s : wpicker) : Prop := WInv s /\ PInv (base s) /\ AvInv (base s).

Lemma inv3_base s b : Inv3 s -> length (pieces b) = length (pieces (base s)) -> PInv b -> AvInv b -> Inv3 (with_base s b).
Proof. intros (I & _ & _) Hl P A. split; [apply winv_base; assumption|]. split; assumption. Qed.

Lemma inv3_assign s pe i af : Inv3 s -> sound_pick (base s) pe i -> pe_downloading (get_peer (peers (base s)) pe) = false ->
  Inv3 (with_base s (assign_piece (base s) pe i af)).
Proof.
  intros (I & P & A) (S1 & S2 & S3 & S4) Hd. apply inv3_base; [split; [exact I|split; assumption]|apply len_assign| |apply assign_av; exact A].
  apply assign_inv; try assumption. unfold R. rewrite S4. unfold limit, zlen. cbn [length]. lia.
Qed.

Lemma winv_advance s k d : WInv s -> 0 <= k < zlen (srcs s) -> get_src s k = Some d -> d_cur d < d_end d ->
  WInv (set_src s k (Some {| d_begin := d_begin d; d_end := d_end d; d_cur := d_cur d + 1 |})).
Proof.
  intros I Hk E Hc. set (d1 := {| d_begin := d_begin d; d_end := d_end d; d_cur := d_cur d + 1 |}).
  assert (V : forall k', 0 <= k' -> get_src (set_src s k (Some d1)) k' = if k' =? k then Some d1 else get_src s k').
  { intros k' Hk'. destruct (k' =? k) eqn:Ek; [assert (k' = k) by lia; subst; apply get_src_set_same; exact Hk|apply get_src_set_other; lia]. }
  destruct (w_dl s I k d Hk E) as (D1 & D2 & D3 & D4 & D5).
  constructor.
  - apply (w_len s I).
  - intros i k0 Hi Ho. change (npieces (set_src s k (Some d1))) with (npieces s) in Hi. change (get_owner (set_src s k (Some d1)) i) with (get_owner s i) in Ho.
    destruct (w_own s I i k0 Hi Ho) as (K0 & d0 & E0 & R0). rewrite zlen_srcs_set. split; [exact K0|]. rewrite V by lia.
    destruct (k0 =? k) eqn:Ek; [|eauto]. assert (k0 = k) by lia. subst. rewrite E in E0. inversion E0; subst. exists d1. split; [reflexivity|exact R0].
  - intros k0 d0 i K0 E0 R0. rewrite zlen_srcs_set in K0. rewrite V in E0 by lia. change (get_owner (set_src s k (Some d1)) i) with (get_owner s i).
    destruct (k0 =? k) eqn:Ek; [|apply (w_rng s I k0 d0); assumption]. assert (k0 = k) by lia. subst. inversion E0; subst d0.
    apply (w_rng s I k d); assumption.
  - intros k0 d0 K0 E0. rewrite zlen_srcs_set in K0. rewrite V in E0 by lia. change (npieces (set_src s k (Some d1))) with (npieces s).
    destruct (k0 =? k) eqn:Ek; [|apply (w_dl s I k0 d0); assumption]. inversion E0; subst d0. cbn [d1 d_begin d_end d_cur]. lia.
Qed.

Lemma base_step_inv s o b' : Inv3 s -> pstep (base s) o = Some b' -> Inv3 (with_base s b').
Proof.
  intros (I & P & A) H. apply inv3_base; [split; [exact I|split; assumption]|eapply pstep_len; eauto|eapply pstep_inv; eauto|eapply pstep_av; eauto].
Qed.

Lemma wpick_inv s pe obs s' : Inv3 s -> wpick_check s pe obs = Some s' -> Inv3 s'.
Proof.
  intros J H. pose proof J as (I & P & A). unfold wpick_check in H. destruct (downloading_ws s) eqn:Hd.
  2:{ destruct (pick_check (base s) pe obs) as [b'|] eqn:Ep; [|discriminate]. inversion H; subst. apply (base_step_inv s (OPick pe obs)); assumption. }
  assert (Hnone : forall o, none_only s o = Some s' -> Inv3 s') by (intros [x|] Hn; cbn [none_only] in Hn; inversion Hn; subst; exact J).
  destruct (pe_downloading (get_peer (peers (base s)) pe)) eqn:Edl; [eauto|].
  destruct (pe_choking (get_peer (peers (base s)) pe)) eqn:Ech; [eauto|].
  destruct (gap_cands s pe) as [|x r] eqn:E.
  - destruct (peer_steal s pe) as [[k j]|] eqn:Es; [|eauto].
    destruct obs as [[i af]|]; [|discriminate].
    assert (Hs : sound_pick (base s) pe i).
    { eapply (ws_pick_sound s pe i af); [exact I|exact Hd|]. unfold wpick_check. rewrite Hd, Edl, Ech, E, Es. exact H. }
    destruct ((i =? j) && _) eqn:Ec; [|discriminate]. apply andb_prop in Ec as [Ec _]. assert (i = j) by lia. subst j.
    unfold peer_steal in Es. apply peer_steal_go_spec in Es as (d & Hin & Hr & Hc). apply dl_srcs_in in Hin as [Hk Ek].
    destruct (w_dl s I k d Hk Ek) as (D1 & D2 & D3 & D4 & D5).
    destruct (stop_at_ok s k d i I Hk Ek ltac:(lia)) as (s1 & c & Est & I1 & B1 & _).
    rewrite Est in H. inversion H; subst s'. apply inv3_assign; [split; [exact I1|rewrite B1; split; assumption]|rewrite B1; exact Hs|rewrite B1; exact Edl].
  - destruct obs as [[i af]|]; [|discriminate].
    destruct (ws_gap_legal s pe i && _) eqn:Ec; [|discriminate]. apply andb_prop in Ec as [Ec _]. inversion H; subst s'.
    apply inv3_assign; [exact J|apply gap_pick_sound; exact Ec|exact Edl].
Qed.

Theorem wstep_inv s o s' : Inv3 s -> wstep s o = Some s' -> Inv3 s'.
Proof.
  intros J H. pose proof J as (I & P & A). destruct o as [o0|k obs|k|k|i].
  - destruct o0 as [pe i|pe i|pe|pe|pe|pe obs|pe|pe|i|i ok];
      try (cbn [wstep] in H; match type of H with option_map _ (pstep _ ?o) = _ => destruct (pstep (base s) o) as [b'|] eqn:Ep; [|discriminate];
                                 inversion H; subst; eapply base_step_inv; eauto end).
    cbn [wstep] in H. eapply wpick_inv; eauto.
  - cbn [wstep] in H. destruct (pick_webseed_ok s k obs s' I H) as (I' & B' & _). split; [exact I'|rewrite B'; split; assumption].
  - cbn [wstep] in H. destruct (src_in_range s k) eqn:Er; [|discriminate]. cbn [negb] in H. unfold src_in_range in Er.
    destruct (get_src s k) as [d|] eqn:E; [|discriminate]. destruct (d_cur d <? d_end d) eqn:Ec; [|discriminate]. inversion H; subst.
    split; [apply winv_advance; try assumption; lia|split; assumption].
  - cbn [wstep] in H. destruct (src_in_range s k) eqn:Er; [|discriminate]. cbn [negb] in H. unfold src_in_range in Er.
    destruct (close_ws_ok s k I ltac:(lia)) as (s2 & E2 & I2 & B2 & _). rewrite E2 in H. inversion H; subst. split; [exact I2|rewrite B2; split; assumption].
  - cbn [wstep] in H. destruct (in_range (base s) i) eqn:Er; [|discriminate]. cbn [negb] in H. unfold in_range in Er. fold (npieces s) in Er.
    destruct (get_owner s i) as [k|] eqn:Eo; [|inversion H; subst; exact J].
    destruct (w_own s I i k ltac:(lia) Eo) as (Hk & d & Ek & Hr).
    destruct (stop_at_ok s k d i I Hk Ek Hr) as (s1 & c & Est & I1 & B1 & _). rewrite Est in H. cbn [option_map fst] in H. inversion H; subst.
    split; [exact I1|rewrite B1; split; assumption].
Qed.

Fixpoint run_wops (s : wpicker) (ops : list wop) : option wpicker :=
  match ops with
  | [] => Some s
  | o :: r => match wstep s o with Some s' => run_wops s' r | None => None end
  end.

Lemma nth_repeat_none {A} n k : nth k (repeat (@None A) n) None = None.
Proof. revert k; induction n as [|n IH]; intros [|k]; cbn [repeat nth]; auto. Qed.

Lemma init_inv3 ps seq md nsrc mws : Forall (fun p => p_req p = [] /\ p_having p = []) ps -> Inv3 (init_ws ps seq md nsrc mws).
Proof.
  intros H. split; [|split].
  - constructor.
    + cbn [init_ws owner base pieces]. apply repeat_length.
    + intros i k _ Ho. unfold get_owner in Ho. cbn [init_ws owner] in Ho. rewrite nth_repeat_none in Ho. discriminate.
    + intros k d i _ E. unfold get_src in E. cbn [init_ws srcs] in E. rewrite nth_repeat_none in E. discriminate.
    + intros k d _ E. unfold get_src in E. cbn [init_ws srcs] in E. rewrite nth_repeat_none in E. discriminate.
  - apply init_inv. eapply Forall_impl; [|exact H]. intros p [A _]. exact A.
  - unfold AvInv. cbn [init_ws base avail pieces]. induction H as [|p r [_ Hp] Hr IH]; [reflexivity|].
    cbn [count_held fold_right]. fold (count_held r). unfold held. rewrite Hp. cbn. lia.
Qed.

(* C09, web-seed half, every history: in every state reachable by any sequence of peer events, picks
   (whichever legal answer the picker gave), web-seed range assignments, stop-ats, closes and
   advances of the downloader goroutines, the owner index and the ranges describe each other, the
   peer-half invariants hold and the availability counter is exact *)
Theorem reachable_inv3 ps seq md nsrc mws ops s : Forall (fun p => p_req p = [] /\ p_having p = []) ps ->
  run_wops (init_ws ps seq md nsrc mws) ops = Some s -> Inv3 s.
Proof.
  intros H0. assert (G : forall ops s0, Inv3 s0 -> run_wops s0 ops = Some s -> Inv3 s).
  { induction ops0 as [|o r IH]; intros s0 J H; cbn [run_wops] in H; [inversion H; subst; exact J|].
    destruct (wstep s0 o) as [s1|] eqn:E; [|discriminate]. eapply IH; [eapply wstep_inv; eauto|exact H]. }
  apply G. apply init_inv3. exact H0.
Qed.

(* none of the ownership assertions can fire in a reachable state *)
Theorem no_ownership_panic s : WInv s ->
  (forall k, 0 <= k < zlen (srcs s) -> close_ws s k <> None) /\
  (forall i k, 0 <= i < npieces s -> get_owner s i = Some k -> stop_at s k i <> None) /\
  (forall obs s1 b e, ws_check s obs = Some s1 -> obs = Some (b, e) -> (b <? e) && range_owned s1 b e None = true).
Proof.
  intros I. split; [|split].
  - intros k Hk. destruct (close_ws_ok s k I Hk) as (s' & E & _). congruence.
  - intros i k Hi Eo. destruct (w_own s I i k Hi Eo) as (Hk & d & Ek & Hr).
    destruct (stop_at_ok s k d i I Hk Ek Hr) as (s1 & c & Est & _). congruence.
  - intros obs s1 b e. apply pick_webseed_no_panic. exact I.
Qed.

Example ws_inv_nonvacuous :
  exists s, run_wops (init_ws (repeat default_piece 4) false 2 2 1)
                     [WPickWs 0 (Some (0, 1)); WPickWs 1 (Some (1, 2)); WBase (OHave 7 3); WBase (OUnchoke 7);
                      WBase (OPick 7 (Some (3, false))); WAdvance 0] = Some s /\ get_owner s 1 = Some 1.
Proof. eexists. split; vm_compute; reflexivity. Qed.

(* ---------- findGaps is complete: every piece available for a web seed lies in a gap ---------- *)
Lemma gaps_go_complete s : forall idx m ingap b, consec m idx (npieces s) -> (ingap = true -> b <= m) ->
  forall i, avail_ws s i = true -> (m <= i < npieces s \/ (ingap = true /\ b <= i < m)) ->
  exists g, In g (gaps_go s idx ingap b) /\ fst g <= i < snd g.
Proof.
  induction idx as [|x r IH]; intros m ingap b Hc Hb i Ha Hi; cbn [gaps_go consec] in *.
  - subst m. destruct Hi as [Hi|[-> Hi]]; [lia|]. exists (b, npieces s). split; [left; reflexivity|cbn; lia].
  - destruct Hc as [-> Hc]. destruct ingap; cbn [negb].
    + destruct (avail_ws s m) eqn:Em; cbn [negb].
      * destruct (m - b =? maxws s).
        -- destruct (Z_lt_ge_dec i m) as [Hlt|Hge].
           ++ destruct Hi as [Hi|[_ Hi]]; [lia|]. exists (b, m). split; [left; reflexivity|cbn; lia].
           ++ assert (Hpre : m + 1 <= i < npieces s \/ (true = true /\ m <= i < m + 1)).
              { destruct (Z.eq_dec i m); [right; split; [reflexivity|lia]|left; destruct Hi as [Hi|[_ Hi]]; lia]. }
              destruct (IH (m + 1) true m Hc ltac:(intros; lia) i Ha Hpre) as (g & Hg & Hr).
              exists g. split; [right; exact Hg|exact Hr].
        -- specialize (Hb eq_refl). apply (IH (m + 1) true b Hc ltac:(intros; lia) i Ha). destruct Hi as [Hi|[_ Hi]]; [destruct (Z.eq_dec i m); [right; split; [reflexivity|lia]|left; lia]|right; split; [reflexivity|lia]].
      * destruct (Z_lt_ge_dec i m) as [Hlt|Hge].
        -- destruct Hi as [Hi|[_ Hi]]; [lia|]. exists (b, m). split; [left; reflexivity|cbn; lia].
        -- assert (i <> m) by (intros ->; congruence).
           assert (Hpre : m + 1 <= i < npieces s \/ (false = true /\ b <= i < m + 1)) by (left; destruct Hi as [Hi|[_ Hi]]; lia).
           destruct (IH (m + 1) false b Hc ltac:(intros; discriminate) i Ha Hpre) as (g & Hg & Hr).
           exists g. split; [right; exact Hg|exact Hr].
    + destruct Hi as [Hi|[Hf _]]; [|discriminate]. destruct (avail_ws s m) eqn:Em.
      * apply (IH (m + 1) true m Hc ltac:(intros; lia) i Ha). destruct (Z.eq_dec i m); [right; split; [reflexivity|lia]|left; lia].
      * assert (i <> m) by (intros ->; congruence). apply (IH (m + 1) false b Hc ltac:(intros; discriminate) i Ha). left. lia.
Qed.

Lemma find_gaps_complete s i : in_range (base s) i = true -> avail_ws s i = true ->
  exists g, In g (find_gaps s) /\ fst g <= i < snd g.
Proof.
  intros Hr Ha. unfold find_gaps. apply (gaps_go_complete s _ 0 false 0); [|intros; discriminate| |].
  - unfold zseq, npieces, zlen. pose proof (consec_zseq (length (pieces (base s))) 0) as H. cbn [Z.of_nat Nat.add] in H. exact H.
  - exact Ha.
  - left. unfold in_range in Hr. unfold npieces. lia.
Qed.

(* C10 in web-seed mode: an idle unchoking peer that holds a piece which is neither done, being
   written, requested from a peer nor reserved for a web seed always gets a pick *)
Theorem ws_idle_holder_gets_a_pick s pe i : downloading_ws s = true ->
  let P := get_peer (peers (base s)) pe in let p := get_piece (base s) i in
  pe_downloading P = false -> pe_choking P = false ->
  in_range (base s) i = true -> avail_ws s i = true -> In pe (p_having p) -> p_req p = [] ->
  wpick_check s pe None = None.
Proof.
  intros Hd P p H1 H2 Hr Ha Hh Hq. unfold wpick_check. rewrite Hd. fold P. rewrite H1, H2.
  destruct (find_gaps_complete s i Hr Ha) as (g & Hg & Hi).
  assert (Hc : peer_cand s pe i = true).
  { unfold peer_cand. fold p. rewrite Hq. cbn [length Nat.eqb andb]. apply mem_true. exact Hh. }
  assert (Hcand : exists c, gap_cand s pe g = Some c).
  { unfold gap_cand. destruct (find (peer_cand s pe) (rev (zrange (fst g) (snd g)))) as [c|] eqn:Ef; [eauto|].
    exfalso. pose proof (find_none _ _ Ef i) as Hn. rewrite Hn in Hc; [discriminate|]. apply in_rev. rewrite rev_involutive. apply in_zrange. exact Hi. }
  destruct Hcand as (c & Ec).
  assert (Hin : In (gap_len g, c) (gap_cands s pe)).
  { unfold gap_cands. apply in_flat_map. exists g. split; [exact Hg|]. rewrite Ec. left. reflexivity. }
  destruct (gap_cands s pe); [destruct Hin|reflexivity].
Qed.

(* ---------- findGaps: ascending, pairwise disjoint, at most maxWebseedPieces long ---------- *)
Fixpoint gaps_sorted (lo : Z) (gs : list (Z * Z)) : Prop :=
  match gs with
  | [] => True
  | g :: r => lo <= fst g /\ fst g < snd g /\ gaps_sorted (snd g) r
  end.

Lemma gaps_go_sorted s : forall idx m ingap b, consec m idx (npieces s) -> (ingap = true -> b < m) ->
  gaps_sorted (if ingap then b else m) (gaps_go s idx ingap b).
Proof.
  induction idx as [|x r IH]; intros m ingap b Hc Hb; cbn [gaps_go consec] in *.
  - subst m. destruct ingap; cbn [gaps_sorted]; [|exact I]. specialize (Hb eq_refl). cbn [fst snd]. lia.
  - destruct Hc as [-> Hc]. destruct ingap; cbn [negb].
    + specialize (Hb eq_refl). destruct (avail_ws s m); cbn [negb].
      * destruct (m - b =? maxws s).
        -- cbn [gaps_sorted fst snd]. split; [lia|]. split; [lia|]. apply (IH (m + 1) true m Hc). intros _. lia.
        -- apply (IH (m + 1) true b Hc). intros _. lia.
      * cbn [gaps_sorted fst snd]. split; [lia|]. split; [lia|].
        pose proof (IH (m + 1) false b Hc ltac:(intros; discriminate)) as H. cbn in H.
        clear -H. revert H. generalize (gaps_go s r false b). intros l. destruct l as [|g l]; cbn [gaps_sorted]; [auto|]. intros (A & B & C). repeat split; try lia; exact C.
    + destruct (avail_ws s m).
      * pose proof (IH (m + 1) true m Hc ltac:(intros; lia)) as H. cbn in H. exact H.
      * pose proof (IH (m + 1) false b Hc ltac:(intros; discriminate)) as H. cbn in H.
        revert H. generalize (gaps_go s r false b). intros l. destruct l as [|g l]; cbn [gaps_sorted]; [auto|]. intros (A & B & C). repeat split; try lia; exact C.
Qed.

Theorem find_gaps_sorted s : gaps_sorted 0 (find_gaps s).
Proof.
  unfold find_gaps. apply (gaps_go_sorted s _ 0 false 0); [|intros; discriminate].
  unfold zseq, npieces, zlen. pose proof (consec_zseq (length (pieces (base s))) 0) as H. cbn [Z.of_nat Nat.add] in H. exact H.
Qed.

(* length bound: a web seed is never handed more than maxWebseedPieces pieces in one request *)
Lemma gaps_go_bounded s : 1 <= maxws s -> forall idx m ingap b, consec m idx (npieces s) ->
  (ingap = true -> b < m /\ m - b <= maxws s) ->
  forall g, In g (gaps_go s idx ingap b) -> snd g - fst g <= maxws s.
Proof.
  intros Hm. induction idx as [|x r IH]; intros m ingap b Hc Hb g Hg; cbn [gaps_go consec] in *.
  - destruct ingap; [|destruct Hg]. destruct Hg as [<-|[]]. subst m. specialize (Hb eq_refl). cbn [fst snd]. lia.
  - destruct Hc as [-> Hc]. destruct ingap; cbn [negb] in Hg.
    + specialize (Hb eq_refl). destruct (avail_ws s m); cbn [negb] in Hg.
      * destruct (m - b =? maxws s) eqn:E.
        -- destruct Hg as [<-|Hg]; [cbn [fst snd]; lia|]. apply (IH (m + 1) true m Hc); [intros _; lia|exact Hg].
        -- apply (IH (m + 1) true b Hc); [intros _; lia|exact Hg].
      * destruct Hg as [<-|Hg]; [cbn [fst snd]; lia|]. apply (IH (m + 1) false b Hc); [intros; discriminate|exact Hg].
    + destruct (avail_ws s m).
      * apply (IH (m + 1) true m Hc); [intros _; lia|exact Hg].
      * apply (IH (m + 1) false b Hc); [intros; discriminate|exact Hg].
Qed.

Theorem find_gaps_bounded s g : 1 <= maxws s -> In g (find_gaps s) -> snd g - fst g <= maxws s.
Proof.
  intros Hm. unfold find_gaps. apply (gaps_go_bounded s Hm _ 0 false 0); [|intros; discriminate].
  unfold zseq, npieces, zlen. pose proof (consec_zseq (length (pieces (base s))) 0) as H. cbn [Z.of_nat Nat.add] in H. exact H.
Qed.

(* ---------- a range taken from the gaps consists of pieces that are neither done nor being written ---------- *)
Theorem gap_range_is_open s b e s1 : find_gaps s <> [] -> ws_check s (Some (b, e)) = Some s1 ->
  s1 = s /\ 0 <= b /\ b < e /\ e <= npieces s /\
  forall i, b <= i < e -> open_ (get_piece (base s) i) = true /\ get_owner s i = None.
Proof.
  intros Hne H. unfold ws_check in H. destruct (find_gaps s) as [|g0 gs] eqn:Eg; [congruence|].
  assert (Fin : forall g, In g (g0 :: gs) -> gap_ok s g) by (intros g Hg; apply find_gaps_ok; rewrite Eg; exact Hg).
  assert (Conv : forall g, gap_ok s g -> 0 <= fst g /\ fst g < snd g /\ snd g <= npieces s /\
            forall i, fst g <= i < snd g -> open_ (get_piece (base s) i) = true /\ get_owner s i = None).
  { intros g (A & B & C & D). repeat split; try lia; destruct (avail_ws_free s i (D i H0)); assumption. }
  destruct (sequential (base s)).
  - destruct (first_tail s) as [i|] eqn:Et.
    + destruct ((b =? i) && (e =? i + 1)) eqn:Ebe; [|discriminate]. inversion H; subst s1.
      assert (b = i) by lia. assert (e = i + 1) by lia. subst b e.
      unfold first_tail in Et. apply find_some in Et as [Hin Hc]. apply andb_prop in Hc as [_ Hc].
      unfold zseq in Hin. apply in_map_iff in Hin as (n & <- & Hn). apply in_seq in Hn. unfold npieces, zlen.
      split; [reflexivity|]. repeat split; try lia; assert (i = Z.of_nat n) by lia; subst; destruct (avail_ws_free s _ Hc); assumption.
    + destruct ((b =? fst g0) && (e =? snd g0)) eqn:Ebe; [|discriminate]. inversion H; subst s1.
      assert (b = fst g0) by lia. assert (e = snd g0) by lia. subst b e. split; [reflexivity|]. apply Conv. apply Fin. left; reflexivity.
  - match type of H with context [existsb ?f ?l] => destruct (existsb f l) eqn:Ee; [|discriminate] end. inversion H; subst s1.
    apply existsb_exists in Ee as (g & Hin & Hc). apply andb_prop in Hc as [Hc _]. apply andb_prop in Hc as [Hc1 Hc2].
    assert (b = fst g) by lia. assert (e = snd g) by lia. subst b e. split; [reflexivity|]. apply Conv. apply Fin. exact Hin.
Qed.

(* ---------- a web seed stealing from another: the victim keeps its current piece ---------- *)
Theorem webseed_steal_splits s b e s1 : WInv s -> find_gaps s = [] -> ws_check s (Some (b, e)) = Some s1 ->
  exists k d, 0 <= k < zlen (srcs s) /\ get_src s k = Some d /\ b = steal_begin d /\ e = d_end d /\
              d_cur d < b /\ b < e /\
              get_src s1 k = Some {| d_begin := d_begin d; d_end := b; d_cur := d_cur d |} /\
              (forall j, b <= j < e -> get_owner s1 j = None).
Proof.
  intros I Eg H. unfold ws_check in H. rewrite Eg in H.
  destruct (dl_srcs s) as [|x xs] eqn:Ed; [discriminate|]. rewrite <- Ed in H.
  match type of H with context [find ?f ?l] => destruct (find f l) as [[k d]|] eqn:Ef; [|discriminate] end.
  apply find_some in Ef as [Hin Hc]. apply filter_In in Hin as [Hin _]. apply dl_srcs_in in Hin as [Hk E].
  cbn [snd] in Hc. apply andb_prop in Hc as [Hc Hc3]. apply andb_prop in Hc as [Hc1 Hc2].
  assert (e = d_end d) by lia. assert (b = steal_begin d) by lia. subst e b.
  destruct (w_dl s I k d Hk E) as (D1 & D2 & D3 & D4 & D5).
  assert (Hgt : d_cur d < steal_begin d) by (apply steal_begin_gt; lia).
  destruct (stop_at_ok s k d (steal_begin d) I Hk E ltac:(lia)) as (s' & c & Es & I' & B' & N' & S' & F' & C1 & _).
  rewrite Es in H. cbn [option_map fst] in H. inversion H; subst s1.
  exists k, d. destruct (C1 Hgt) as [_ G]. repeat split; try assumption; try lia. 
Qed.

(* ---------- a peer stealing from a web seed: the piece leaves the web seed's range, the web seed keeps
   everything up to and including the piece it is working on ---------- *)
Theorem peer_steal_releases s pe i af s' : WInv s -> downloading_ws s = true -> gap_cands s pe = [] ->
  wpick_check s pe (Some (i, af)) = Some s' ->
  exists k d, 0 <= k < zlen (srcs s) /\ get_src s k = Some d /\ d_cur d < i < d_end d /\
              get_src s' k = Some {| d_begin := d_begin d; d_end := i; d_cur := d_cur d |} /\
              get_owner s' i = None.
Proof.
  intros I Hd Eg H. unfold wpick_check in H. rewrite Hd in H.
  destruct (pe_downloading (get_peer (peers (base s)) pe)); [discriminate|].
  destruct (pe_choking (get_peer (peers (base s)) pe)); [discriminate|].
  rewrite Eg in H. destruct (peer_steal s pe) as [[k j]|] eqn:Es; [|discriminate].
  destruct ((i =? j) && _) eqn:Ec; [|discriminate]. apply andb_prop in Ec as [Ec _]. assert (i = j) by lia. subst j.
  unfold peer_steal in Es. apply peer_steal_go_spec in Es as (d & Hin & Hr & Hc). apply dl_srcs_in in Hin as [Hk Ek].
  destruct (w_dl s I k d Hk Ek) as (D1 & D2 & D3 & D4 & D5).
  destruct (stop_at_ok s k d i I Hk Ek ltac:(lia)) as (s1 & c & Est & I1 & B1 & N1 & S1 & F1 & C1 & _).
  rewrite Est in H. inversion H; subst s'. exists k, d. destruct (C1 ltac:(lia)) as [_ G].
  split; [exact Hk|]. split; [exact Ek|]. split; [lia|]. split; [exact G|]. apply F1. lia.
Qed.

(* ---------- C10 in web-seed mode, second half: a piece reserved for a web seed but beyond the piece
   the web seed is working on can be stolen by an idle peer that holds it ---------- *)
Lemma peer_steal_go_some s pe : forall ds k d i, In (k, d) ds -> remaining d <> 0 -> d_cur d < i < d_end d ->
  steal_cand s pe i = true -> peer_steal_go s pe ds <> None.
Proof.
  induction ds as [|[k0 d0] r IH]; intros k d i Hin Hrem Hr Hc; [destruct Hin|].
  cbn [peer_steal_go]. destruct Hin as [Hin|Hin].
  - inversion Hin; subst k0 d0. destruct (remaining d =? 0) eqn:E; [lia|].
    destruct (find (steal_cand s pe) (rev (zrange (d_cur d + 1) (d_end d)))) as [j|] eqn:Ef; [discriminate|].
    exfalso. pose proof (find_none _ _ Ef i) as Hn. rewrite Hn in Hc; [discriminate|]. apply in_rev. rewrite rev_involutive. apply in_zrange. lia.
  - destruct (remaining d0 =? 0); [eapply IH; eauto|].
    destruct (find (steal_cand s pe) (rev (zrange (d_cur d0 + 1) (d_end d0)))); [discriminate|eapply IH; eauto].
Qed.

Lemma dl_srcs_has s k d : 0 <= k < zlen (srcs s) -> get_src s k = Some d -> In (k, d) (dl_srcs s).
Proof.
  unfold dl_srcs, get_src, zseq, zlen. generalize (srcs s). intros l Hk E.
  assert (G : forall (l : list (option wdl)) a n, nth n l None = Some d ->
            In (Z.of_nat (a + n), d) (flat_map (fun kd : Z * option wdl => match snd kd with Some d0 => [(fst kd, d0)] | None => [] end)
                                               (combine (map Z.of_nat (seq a (length l))) l))).
  { induction l0 as [|x r IH]; intros a n Hn; [destruct n; discriminate|]. cbn [length seq map combine flat_map]. apply in_or_app. destruct n as [|n].
    - cbn [nth] in Hn. subst x. left. cbn [snd fst]. left. rewrite Nat.add_0_r. reflexivity.
    - right. replace (a + S n)%nat with (S a + n)%nat by lia. apply IH. exact Hn. }
  specialize (G l 0%nat (Z.to_nat k) E). cbn [Nat.add] in G. rewrite Z2Nat.id in G by lia. exact G.
Qed.

Theorem ws_idle_holder_can_steal s pe i k d : downloading_ws s = true ->
  let P := get_peer (peers (base s)) pe in let p := get_piece (base s) i in
  pe_downloading P = false -> pe_choking P = false ->
  0 <= k < zlen (srcs s) -> get_src s k = Some d -> remaining d <> 0 -> d_cur d < i < d_end d ->
  p_done p = false -> p_writing p = false -> In pe (p_having p) -> p_req p = [] ->
  wpick_check s pe None = None.
Proof.
  intros Hd P p H1 H2 Hk Ek Hrem Hr Hdone Hwr Hh Hq. unfold wpick_check. rewrite Hd. fold P. rewrite H1, H2.
  destruct (gap_cands s pe); [|reflexivity].
  assert (Hc : steal_cand s pe i = true).
  { unfold steal_cand. fold p. unfold open_. rewrite Hdone, Hwr, Hq. cbn [orb negb andb length Nat.eqb]. rewrite andb_true_r. apply mem_true. exact Hh. }
  destruct (peer_steal s pe) as [[k' j]|] eqn:Es; [reflexivity|].
  exfalso. unfold peer_steal in Es. exact (peer_steal_go_some s pe (dl_srcs s) k d i (dl_srcs_has s k d Hk Ek) Hrem Hr Hc Es).
Qed.

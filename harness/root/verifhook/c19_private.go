//go:build verif

package verifhook

import (
	"crypto/sha1"
	"encoding/hex"
	"fmt"
	"math/rand"
	"net"
	"net/http"
	"net/url"
	"os"
	"strconv"
	"strings"
	"sync"
	"time"

	"github.com/cenkalti/rain/v2/internal/metainfo"
	"github.com/cenkalti/rain/v2/internal/peersource"
	"github.com/cenkalti/rain/v2/torrent"
	"github.com/zeebo/bencode"
)

// kind 1901: the private flag of an info dictionary, for generated encodings of the value of "private".
// in = the raw bytes of the value ([] = key absent); obs = [private] or [-1] when the dictionary is rejected.

func privInfoText(raw []byte) []byte {
	b := []byte("d6:lengthi1000e4:name1:t12:piece lengthi16384e6:pieces20:")
	b = append(b, make([]byte, 20)...)
	if len(raw) > 0 {
		b = append(b, "7:private"...)
		b = append(b, raw...)
	}
	return append(b, 'e')
}

func genPrivRaw(r *rand.Rand) []byte {
	str := func(s string) []byte { return []byte(strconv.Itoa(len(s)) + ":" + s) }
	switch r.Intn(12) {
	case 0:
		return nil
	case 1:
		return []byte("i0e")
	case 2:
		return []byte("i1e")
	case 3:
		return []byte(fmt.Sprintf("i%de", r.Int63n(2000)-1000))
	case 4:
		return []byte("i" + []string{"9223372036854775807", "9223372036854775808", "-9223372036854775808", "-9223372036854775809",
			"18446744073709551616", "4294967296", "-1", "256"}[r.Intn(8)] + "e")
	case 5:
		return str([]string{"", "0", "1", "00", "no", "false", "yes", "true", " ", "0 ", "-0", "\x00"}[r.Intn(12)])
	case 6:
		b := make([]byte, r.Intn(4))
		for i := range b {
			b[i] = byte([]int{48, 49, 0, 255, 32, 101}[r.Intn(6)])
		}
		return str(string(b))
	case 7:
		return []byte([]string{"le", "li0ee", "l0:e", "lli1eee"}[r.Intn(4)])
	case 8:
		return []byte([]string{"de", "d1:ai0ee", "d0:0:e"}[r.Intn(3)])
	case 9:
		return str(strconv.Itoa(r.Intn(3)))
	case 10:
		return []byte(fmt.Sprintf("i%de", r.Intn(3)))
	default:
		return []byte(fmt.Sprintf("i%de", r.Int63()-r.Int63()))
	}
}

func genPrivFlag(r *rand.Rand, tier string) Case {
	raw := genPrivRaw(r)
	in := make([]int64, len(raw))
	for i, c := range raw {
		in[i] = int64(c)
	}
	info, err := metainfo.NewInfo(privInfoText(raw), true, true)
	if err != nil {
		return Case{In: in, Obs: []int64{-1}, Note: err.Error()}
	}
	return Case{In: in, Obs: []int64{b2i(info.Private)}}
}

// kind 1902: a private / public / magnet torrent in the stepped event loop, with a scripted HTTP
// tracker, scripted peers, and the session's DHT and PEX switches on or off.
//
// in  = [info dht pex dial P] then events (see coq/theories/Priv.v dec_pev)
// obs = [state | peer id is private] then per event [state | the event's own outputs]
//       state = [tracker dht pex user addresses known | dht announcer | dht request queued (private torrents only)
//                | pex sender per peer *P | running | has info]

type privTracker struct {
	mu    sync.Mutex
	ln    net.Listener
	reply int // addresses in the next reply
	next  *int
	hits  []privHit
	mk    func() []byte
}

type privHit struct {
	ua, peerID, event string
}

func (pt *privTracker) ServeHTTP(w http.ResponseWriter, req *http.Request) {
	q, _ := url.ParseQuery(req.URL.RawQuery)
	pt.mu.Lock()
	pt.hits = append(pt.hits, privHit{req.UserAgent(), q.Get("peer_id"), q.Get("event")})
	n := pt.reply
	pt.reply = 0
	var peers []byte
	for i := 0; i < n; i++ {
		peers = append(peers, pt.mk()...)
	}
	pt.mu.Unlock()
	b, _ := bencode.EncodeBytes(map[string]any{"interval": 1800, "peers": string(peers)})
	_, _ = w.Write(b)
}

func (pt *privTracker) take() []privHit {
	pt.mu.Lock()
	defer pt.mu.Unlock()
	h := pt.hits
	pt.hits = nil
	return h
}

const (
	privPrefix  = "-PV0001-"
	privVersion = "PrivClient 1.0"
	privAgent   = "PrivAgent/1.0"
)

type privH struct {
	r       *rand.Rand
	v       *torrent.VLoop
	tr      *privTracker
	P       int
	info    int64
	in, obs []int64
	seq     int
	peers   []*torrent.VPeer
	shaken  []bool
	metaReq []bool
	infoB   []byte
	note    map[string]int
	dial    bool
	probeLn net.Listener
}

// fresh returns a new loopback address on which nothing listens (compact form).
func (h *privH) fresh() []byte {
	h.seq++
	if h.seq%250 == 0 {
		h.seq++
	}
	return []byte{127, byte(h.seq % 250), byte(h.seq / 250), 1, 0, 1} // distinct under the /16 mask of the address list's priority key
}

func compactToAddrs(b []byte) []*net.TCPAddr {
	var out []*net.TCPAddr
	for i := 0; i+6 <= len(b); i += 6 {
		out = append(out, &net.TCPAddr{IP: net.IPv4(b[i], b[i+1], b[i+2], b[i+3]), Port: int(b[i+4])<<8 | int(b[i+5])})
	}
	return out
}

func (h *privH) state() {
	s := h.v.PrivState()
	snap := h.v.Snapshot()
	h.obs = append(h.obs, int64(s.BySource[0]), int64(s.BySource[1]), int64(s.BySource[2]), int64(s.BySource[3]), b2i(s.DHTAnnouncer))
	if h.info == 2 {
		h.obs = append(h.obs, b2i(s.DHTRequested))
	} else {
		h.obs = append(h.obs, 0)
	}
	for k := 0; k < h.P; k++ {
		h.obs = append(h.obs, b2i(k < len(s.PEX) && s.PEX[k]))
	}
	running := snap.Status != "Stopped" && snap.Status != "Stopping"
	h.obs = append(h.obs, b2i(running), b2i(snap.HasInfo))
}

func (h *privH) open(p int) bool {
	return p >= 0 && p < len(h.peers) && !h.peers[p].Pe.Closed
}

func (h *privH) anyOpen() int {
	var l []int
	for p := range h.peers {
		if h.open(p) {
			l = append(l, p)
		}
	}
	if len(l) == 0 {
		return -1
	}
	return l[h.r.Intn(len(l))]
}

func (h *privH) running() bool {
	st := h.v.Snapshot().Status
	return st != "Stopped" && st != "Stopping"
}

// extV extracts the client version of the client's extension handshake.
func extV(fs []torrent.VFrame) (string, bool) {
	for _, f := range fs {
		if f.ID == 20 && len(f.Payload) > 1 && f.Payload[0] == 0 {
			var d struct {
				V string `bencode:"v"`
			}
			if bencode.DecodeBytes(f.Payload[1:], &d) == nil {
				return d.V, true
			}
		}
	}
	return "", false
}

func (h *privH) noteMetaRequests() {
	h.v.Barrier()
	for p, vp := range h.peers {
		fs, _ := vp.Take()
		for _, f := range fs {
			if f.ID == 20 && len(f.Payload) > 1 && f.Payload[0] == utMetaID {
				if t, ok := bencInt(f.Payload[1:], "msg_type"); ok && t == 0 {
					h.metaReq[p] = true
				}
			}
		}
	}
}

func (h *privH) step(x int) bool {
	r, v := h.r, h.v
	switch {
	case x < 12: // start
		if h.running() {
			return false
		}
		n := r.Intn(4)
		h.tr.mu.Lock()
		h.tr.reply = n
		h.tr.mu.Unlock()
		h.tr.take()
		v.Start()
		if v.Snapshot().Status == "Allocating" {
			if e := v.PumpEx(10*time.Second, torrent.ClsAlloc); e.Code != torrent.EvAllocDone {
				h.note["allocfail"]++
			}
		}
		got := v.PumpTracker(3 * time.Second)
		if got != n {
			h.note["trackermismatch"]++
		}
		ua, pid := int64(-1), int64(-1)
		for _, hit := range h.tr.take() {
			ua = b2i(hit.ua == privAgent)
			pid = b2i(strings.HasPrefix(hit.peerID, privPrefix))
			if hit.peerID != v.PeerIDString() {
				pid = -2
			}
		}
		h.in = append(h.in, 1, int64(n))
		h.state()
		h.obs = append(h.obs, ua, pid)
	case x < 18: // stop
		if !h.running() {
			return false
		}
		v.Stop()
		if e := v.PumpEx(10*time.Second, torrent.ClsStopped); e.Code != torrent.EvAnnouncersStopped {
			h.note["stopfail"]++
		}
		h.in = append(h.in, 2)
		h.state()
	case x < 32: // connect
		if !h.running() || len(h.peers) >= h.P {
			return false
		}
		vp, err := v.AddPeer(r.Intn(2) == 0, true, peersource.Incoming)
		if err != nil {
			h.note["connecterr"]++
			return false
		}
		h.peers = append(h.peers, vp)
		h.shaken = append(h.shaken, false)
		h.metaReq = append(h.metaReq, false)
		v.Barrier()
		fs, _ := vp.Take()
		ver, ok := extV(fs)
		vpriv := int64(-3)
		if ok {
			vpriv = b2i(ver == privVersion)
		}
		h.in = append(h.in, 3)
		h.state()
		h.obs = append(h.obs, vpriv)
	case x < 46: // extension handshake
		p := h.anyOpen()
		if p < 0 || h.shaken[p] && r.Intn(3) > 0 { // a second handshake is ignored by the client
			return false
		}
		pex := r.Intn(3) > 0
		m := map[string]any{"ut_metadata": utMetaID}
		if pex {
			m["ut_pex"] = 4
		}
		d := map[string]any{"m": m, "metadata_size": len(h.infoB)}
		b, _ := bencode.EncodeBytes(d)
		if h.peers[p].Send(20, append([]byte{0}, b...)) != nil {
			return false
		}
		if e := v.PumpEx(10*time.Second, torrent.ClsMsg); e.Code == torrent.EvNone {
			h.note["msgtimeout"]++
			return false
		}
		h.shaken[p] = true
		h.noteMetaRequests()
		h.in = append(h.in, 4, int64(p), b2i(pex))
		h.state()
	case x < 62: // PEX message
		p := h.anyOpen()
		if p < 0 {
			return false
		}
		n := r.Intn(4)
		var added, dropped []byte
		for i := 0; i < n; i++ {
			if r.Intn(4) == 0 {
				dropped = append(dropped, h.fresh()...)
			} else {
				added = append(added, h.fresh()...)
			}
		}
		b, _ := bencode.EncodeBytes(map[string]any{"added": string(added), "dropped": string(dropped)})
		if h.peers[p].Send(20, append([]byte{2}, b...)) != nil { // 2 = the client's id for ut_pex
			return false
		}
		if e := v.PumpEx(10*time.Second, torrent.ClsMsg); e.Code == torrent.EvNone {
			h.note["msgtimeout"]++
			return false
		}
		h.in = append(h.in, 5, int64(p), int64(n))
		h.state()
	case x < 79: // addresses from the DHT, a tracker, the user
		src := []int64{6, 6, 7, 8}[r.Intn(4)]
		n := r.Intn(4)
		var b []byte
		for i := 0; i < n; i++ {
			b = append(b, h.fresh()...)
		}
		ps := map[int64]peersource.Source{6: peersource.DHT, 7: peersource.Tracker, 8: peersource.Manual}[src]
		v.NewAddrs(compactToAddrs(b), ps)
		h.in = append(h.in, src, int64(n))
		h.state()
	case x < 85: // the user asks for an announce
		if !h.running() {
			return false
		}
		v.AnnounceCmd()
		h.in = append(h.in, 13)
		h.state()
	case x < 88: // port message
		p := h.anyOpen()
		if p < 0 {
			return false
		}
		if h.peers[p].Send(9, []byte{0x1f, 0x90}) != nil {
			return false
		}
		if e := v.PumpEx(10*time.Second, torrent.ClsMsg); e.Code == torrent.EvNone {
			h.note["msgtimeout"]++
			return false
		}
		h.in = append(h.in, 9, int64(p))
		h.state()
	case x < 92: // magnet export
		s := v.PrivState()
		h.in = append(h.in, 10)
		h.state()
		h.obs = append(h.obs, b2i(s.MagnetErr))
	case x < 97: // a peer delivers the metadata
		if h.info != 0 && h.info != 3 || v.Snapshot().HasInfo || !h.running() {
			return false
		}
		p := -1
		for k := range h.peers {
			if h.open(k) && h.metaReq[k] {
				p = k
			}
		}
		if p < 0 {
			return false
		}
		d, _ := bencode.EncodeBytes(map[string]any{"msg_type": 1, "piece": 0, "total_size": len(h.infoB)})
		pl := append([]byte{1}, d...)
		pl = append(pl, h.infoB...)
		if h.peers[p].Send(20, pl) != nil {
			return false
		}
		if e := v.PumpEx(10*time.Second, torrent.ClsMsg); e.Code == torrent.EvNone {
			h.note["msgtimeout"]++
			return false
		}
		h.metaReq[p] = false
		switch v.Snapshot().Status {
		case "Allocating":
			if e := v.PumpEx(10*time.Second, torrent.ClsAlloc); e.Code != torrent.EvAllocDone {
				h.note["allocfail"]++
			}
		case "Stopping":
			if e := v.PumpEx(10*time.Second, torrent.ClsStopped); e.Code != torrent.EvAnnouncersStopped {
				h.note["stopfail"]++
			}
		}
		h.in = append(h.in, 11, int64(p))
		h.state()
		h.obs = append(h.obs, b2i(v.Snapshot().HasInfo))
	default: // the address of a listener we own arrives
		if h.probeLn == nil {
			return false
		}
		src := int64(5 + r.Intn(4))
		p := -1
		addr := h.probeLn.Addr().(*net.TCPAddr)
		compact := []byte{127, 0, 0, 1, byte(addr.Port >> 8), byte(addr.Port)}
		before := h.v.PrivState().BySource
		if src == 5 {
			p = h.anyOpen()
			if p < 0 {
				return false
			}
			b, _ := bencode.EncodeBytes(map[string]any{"added": string(compact), "dropped": ""})
			if h.peers[p].Send(20, append([]byte{2}, b...)) != nil {
				return false
			}
			if e := v.PumpEx(10*time.Second, torrent.ClsMsg); e.Code == torrent.EvNone {
				h.note["msgtimeout"]++
				return false
			}
		} else {
			ps := map[int64]peersource.Source{6: peersource.DHT, 7: peersource.Tracker, 8: peersource.Manual}[src]
			v.NewAddrs(compactToAddrs(compact), ps)
		}
		after := h.v.PrivState().BySource
		wait := 150 * time.Millisecond
		if after != before && h.dial {
			wait = 3 * time.Second
		}
		_ = h.probeLn.(*net.TCPListener).SetDeadline(time.Now().Add(wait))
		c, err := h.probeLn.Accept()
		if err == nil {
			c.Close()
		}
		h.probeLn.Close()
		h.probeLn = nil
		h.in = append(h.in, 12, src, int64(p))
		h.state()
		h.obs = append(h.obs, b2i(err == nil))
	}
	return true
}

// freeUDPPort asks the kernel for a UDP port that is free now.
func freeUDPPort() uint16 {
	c, err := net.ListenPacket("udp4", "127.0.0.1:0")
	if err != nil {
		return 0
	}
	defer c.Close()
	return uint16(c.LocalAddr().(*net.UDPAddr).Port)
}

func genPrivate(r *rand.Rand, tier string) Case {
	h := &privH{r: r, note: map[string]int{}}
	h.info = []int64{1, 2, 2, 2, 0, 3}[r.Intn(6)]
	dht, pex := r.Intn(3) > 0, r.Intn(4) > 0
	h.dial = r.Intn(2) == 0
	h.P = 1 + r.Intn(3)
	l := genVLayout(r, 2)
	content := l.Content(r.Int63())
	var raw []byte
	for k := 0; k < 50; k++ {
		raw = genPrivRaw(r)
		wantPriv := h.info == 2 || h.info == 3
		i, err := metainfo.NewInfo(privInfoText(raw), true, true)
		if err == nil && i.Private == wantPriv {
			break
		}
		raw = nil
		if wantPriv {
			raw = []byte("i1e")
		}
	}
	info := l.InfoBytes(content, -1)
	if len(raw) > 0 { // keys are sorted: ... "pieces", "private"
		info = append(append(info[:len(info)-1:len(info)-1], "7:private"...), raw...)
		info = append(info, 'e')
	}
	h.infoB = info
	ln, err := net.Listen("tcp", "127.0.0.1:0")
	if err != nil {
		return Case{In: []int64{0}, Obs: []int64{-710}}
	}
	h.tr = &privTracker{ln: ln, mk: h.fresh}
	srv := &http.Server{Handler: h.tr}
	go srv.Serve(ln)
	defer srv.Close()
	turl := "http://" + ln.Addr().String() + "/announce"
	tune := func(c *torrent.Config) {
		c.DHTEnabled = dht
		c.DHTHost = "127.0.0.1"
		c.DHTPort = freeUDPPort()
		c.DHTBootstrapNodes = nil
		c.PEXEnabled = pex
		c.MaxPeerDial = 0
		if h.dial {
			c.MaxPeerDial = 200
		}
		c.PrivatePeerIDPrefix = privPrefix
		c.PrivateExtensionHandshakeClientVersion = privVersion
		c.TrackerHTTPPrivateUserAgent = privAgent
		c.UnchokedPeers = 0
		c.OptimisticUnchokedPeers = 0
		c.TrackerStopTimeout = 2 * time.Second
	}
	opts := torrent.VLoopOpts{Tune: tune}
	if h.info == 0 || h.info == 3 {
		ih := sha1.Sum(info)
		opts.Magnet = "magnet:?xt=urn:btih:" + hex.EncodeToString(ih[:]) + "&tr=" + url.QueryEscape(turl)
	} else {
		opts.TorrentFile = torrent.BuildTorrentFileWithTrackers(info, nil, [][]string{{turl}})
	}
	v, err := torrent.NewVLoop(opts)
	for try := 0; err != nil && try < 5; try++ { // the DHT port may have been taken in the meantime
		v, err = torrent.NewVLoop(opts)
	}
	if err != nil {
		return Case{In: []int64{0}, Obs: []int64{-711}, Note: err.Error()}
	}
	reopened := false
	if r.Intn(4) == 0 { // the same torrent after a restart of the session
		db, rerr := os.ReadFile(v.DBPath())
		v.Close()
		if rerr != nil {
			return Case{In: []int64{0}, Obs: []int64{-712}}
		}
		v, err = torrent.OpenVLoop(db, torrent.NewVStorage(), tune)
		for try := 0; err != nil && try < 5; try++ {
			v, err = torrent.OpenVLoop(db, torrent.NewVStorage(), tune)
		}
		if err != nil {
			return Case{In: []int64{0}, Obs: []int64{-713}, Note: err.Error()}
		}
		reopened = true
	}
	defer v.Close()
	v.TruthInfo = info
	h.v = v
	h.probeLn, _ = net.Listen("tcp", "127.0.0.1:0")
	defer func() {
		if h.probeLn != nil {
			h.probeLn.Close()
		}
	}()
	h.in = []int64{h.info, b2i(dht), b2i(pex), b2i(h.dial), int64(h.P)}
	h.state()
	h.obs = append(h.obs, b2i(v.PrivState().PeerIDPriv))
	steps := 6 + r.Intn(14)
	done := 0
	for i := 0; i < 200 && done < steps && v.Crash == ""; i++ {
		x := r.Intn(100)
		if done == 0 && r.Intn(8) > 0 { // start first: most events need a running torrent
			x = 0
		}
		if (h.info == 0 || h.info == 3) && done > 0 && done < steps-1 && r.Intn(3) == 0 { // magnets: drive the metadata exchange
			x = []int{20, 35, 93}[r.Intn(3)]
		}
		if done == steps-1 {
			x = 97
		}
		if h.step(x) || done == steps-1 {
			done++
		}
	}
	if v.Crash != "" {
		h.obs = append(h.obs, CrashMark)
	}
	note := fmt.Sprintf("reopened=%v ", reopened)
	for k, n := range h.note {
		note += fmt.Sprintf("%s=%d ", k, n)
	}
	if v.BarrierTimeouts > 0 {
		note += fmt.Sprintf(" barriertimeout=%d", v.BarrierTimeouts)
	}
	return Case{In: h.in, Obs: h.obs, Note: note}
}

func init() {
	Register(1901, "the private flag of generated encodings of the info dictionary's private field", genPrivFlag)
	Register(1902, "private / public / magnet torrents in the stepped event loop: every source of peer addresses, DHT announcer, PEX, magnet export, identity", genPrivate)
}

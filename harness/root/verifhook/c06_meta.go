//go:build verif

package verifhook

import (
	"math"
	"math/rand"
	"strconv"

	"github.com/cenkalti/rain/v2/internal/metainfo"
	"github.com/zeebo/bencode"
)

// runAccept: in = [pl; npb; single; padopt; nfiles; (len ispad)*] -> NewInfo outcome
func runAccept(in []int64) []int64 {
	pl, npb, single, padopt, nf := in[0], in[1], in[2], in[3] != 0, int(in[4])
	d := map[string]any{
		"name":         "t",
		"piece length": pl,
		"pieces":       string(make([]byte, npb)),
	}
	if nf == 0 {
		d["length"] = single
	} else {
		fs := make([]benFile, nf)
		for i := 0; i < nf; i++ {
			fs[i] = benFile{Length: in[5+2*i], Path: []string{"f" + strconv.Itoa(i)}}
			if in[6+2*i] != 0 {
				fs[i].Attr = "p"
			}
		}
		d["files"] = fs
		if single != 0 {
			d["length"] = single // both keys present: files wins
		}
	}
	b, err := bencode.EncodeBytes(d)
	if err != nil {
		return []int64{-701}
	}
	info, err := metainfo.NewInfo(b, true, padopt)
	if err != nil {
		return []int64{0}
	}
	obs := []int64{1, int64(info.PieceLength), int64(info.NumPieces), info.Length, info.Padding, int64(len(info.Files))}
	for _, f := range info.Files {
		obs = append(obs, f.Length, b2i(f.Padding))
	}
	return obs
}

func genAccept(r *rand.Rand, tier string) Case {
	pl := pick(r, 1, 4, 16384, 16384, 32768, 1<<20, math.MaxUint32, 100)
	n := int64(1 + r.Intn(5))
	nf := r.Intn(6)
	var lens []int64
	// start from a consistent layout, then maybe break it
	total := pl*(n-1) + 1 + r.Int63n(pl)
	if nf == 0 {
		lens = nil
	} else {
		rem := total
		for i := 0; i < nf-1; i++ {
			x := r.Int63n(rem + 1)
			if r.Intn(4) == 0 {
				x = 0
			}
			lens = append(lens, x)
			rem -= x
		}
		lens = append(lens, rem)
	}
	single := int64(0)
	if nf == 0 {
		single = total
	}
	npb := 20 * n
	switch r.Intn(14) {
	case 0: // negative length with compensation elsewhere
		if nf >= 2 {
			i, j := r.Intn(nf), r.Intn(nf)
			if i != j {
				k := 1 + r.Int63n(1000)
				lens[i] -= lens[i] + k
				lens[j] += lens[i]*-1 + 0
				// keep the sum: move (old_i + k) to j
			}
		} else {
			single = -single
		}
	case 1: // int64 overflow of the sum that wraps back to the right total
		if nf >= 3 {
			lens[0] = math.MaxInt64
			lens[1] = math.MaxInt64
			lens[2] = total + 2 // MaxInt64*2 wraps to -2
			for i := 3; i < nf; i++ {
				lens[i] = 0
			}
		}
	case 2:
		pl = 0
	case 3:
		npb += int64(1 + r.Intn(19))
	case 4:
		npb = 0
	case 5:
		pl = pick(r, -1, 1<<32, 1<<40, math.MinInt64)
	case 6: // total off by a piece
		if nf == 0 {
			single += pl * pick(r, -1, 1)
		} else {
			lens[r.Intn(nf)] += pl * pick(r, -1, 1)
		}
	case 7:
		if nf == 0 {
			single = pick(r, math.MinInt64, math.MaxInt64, -1, 0)
		} else {
			lens[r.Intn(nf)] = pick(r, math.MinInt64, math.MaxInt64, -1)
		}
	case 8: // negative padding compensated by a later file (the pinned-tree defect)
		if nf >= 3 {
			lens[0], lens[1], lens[2] = total, -50, 50
			for i := 3; i < nf; i++ {
				lens[i] = 0
			}
		}
	}
	in := []int64{pl, npb, single, b2i(r.Intn(4) != 0), int64(nf)}
	for i := 0; i < nf; i++ {
		in = append(in, lens[i], b2i(r.Intn(3) == 0))
	}
	return Case{In: in, Obs: Guard(func() []int64 { return runAccept(in) })}
}

func init() {
	Register(601, "metainfo.NewInfo accept/reject and resulting Info on adversarial field values", genAccept)
	RegisterReplay(601, runAccept)
}

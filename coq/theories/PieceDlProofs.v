(* piecedownloader: whatever blocks a peer sends, the piece buffer only ever receives data at the
   exact block positions calculateBlocks produced, each at most once; when all blocks are there the
   buffer is the accepted blocks at their places and zeros elsewhere (padding).  Piece writer:
   storage is touched only by a buffer whose hash matches. *)
From RainV Require Import Lib Geometry SectionIO BlocksProofs PieceDl SectionIOProofs.
From Coq Require Import ZifyBool.

Lemma put_len buf begin data : 0 <= begin -> begin + zlen data <= zlen buf -> zlen (put buf begin data) = zlen buf.
Proof. intros Hb Hl. unfold put, zlen in *. rewrite !app_length, firstn_length, skipn_length. lia. Qed.

Lemma put_slice_same buf begin data : 0 <= begin -> begin + zlen data <= zlen buf ->
  slice (put buf begin data) begin (zlen data) = data.
Proof.
  intros Hb Hl. unfold slice, put, zlen in *.
  assert (Hf : length (firstn (Z.to_nat begin) buf) = Z.to_nat begin) by (rewrite firstn_length; lia).
  rewrite skipn_app, skipn_all2 by lia. rewrite Hf, Nat.sub_diag. cbn [skipn app].
  rewrite firstn_app, Nat2Z.id, firstn_all, Nat.sub_diag. cbn [firstn]. apply app_nil_r.
Qed.

Lemma nth_put_other buf begin data k : 0 <= begin -> begin + zlen data <= zlen buf ->
  (k < Z.to_nat begin \/ Z.to_nat begin + length data <= k)%nat -> nth k (put buf begin data) 0 = nth k buf 0.
Proof.
  intros Hb Hl Hk. unfold put, zlen in *.
  assert (Hf : length (firstn (Z.to_nat begin) buf) = Z.to_nat begin) by (rewrite firstn_length; lia).
  destruct Hk as [Hk|Hk].
  - rewrite app_nth1 by lia. rewrite nth_firstn'. destruct (k <? Z.to_nat begin)%nat eqn:E; [reflexivity|].
    apply Nat.ltb_ge in E. lia.
  - rewrite app_nth2 by lia. rewrite app_nth2 by lia. rewrite Hf.
    rewrite nth_skipn'. f_equal. lia.
Qed.

Lemma slice_put_other buf begin data b n : 0 <= begin -> begin + zlen data <= zlen buf -> 0 <= b -> 0 <= n ->
  (b + n <= begin \/ begin + zlen data <= b) -> slice (put buf begin data) b n = slice buf b n.
Proof.
  intros Hb Hl Hb0 Hn Hd. unfold slice.
  apply nth_ext with (d := 0) (d' := 0).
  - rewrite !firstn_length, !skipn_length. pose proof (put_len buf begin data Hb Hl) as Hp. unfold zlen in Hp. lia.
  - intros k Hk. rewrite firstn_length, skipn_length in Hk.
    rewrite !nth_firstn'. destruct (k <? Z.to_nat n)%nat eqn:E; [|reflexivity].
    apply Nat.ltb_lt in E. rewrite !nth_skipn'. apply nth_put_other; auto. unfold zlen in *. lia.
Qed.

(* blocks as calculateBlocks delivers them: ordered, disjoint, inside the piece *)
Lemma ordered_in : forall bl lo hi b, ordered lo bl hi -> In b bl -> lo <= bbeg b /\ 0 < blen b /\ bbeg b + blen b <= hi.
Proof.
  induction bl as [|x r IH]; intros lo hi b Ho Hin; [destruct Hin|]. destruct Ho as (H1 & H2 & H3).
  destruct Hin as [<-|Hin]; [pose proof (ordered_lo_hi _ _ _ H3); lia|].
  destruct (IH _ _ _ H3 Hin). lia.
Qed.

Lemma ordered_disjoint : forall bl lo hi b1 b2, ordered lo bl hi -> In b1 bl -> In b2 bl -> bbeg b1 <> bbeg b2 ->
  bbeg b1 + blen b1 <= bbeg b2 \/ bbeg b2 + blen b2 <= bbeg b1.
Proof.
  induction bl as [|x r IH]; intros lo hi b1 b2 Ho H1 H2 Hne; [destruct H1|]. destruct Ho as (A & B & C).
  destruct H1 as [<-|H1], H2 as [<-|H2].
  - congruence.
  - left. destruct (ordered_in _ _ _ _ C H2). lia.
  - right. destruct (ordered_in _ _ _ _ C H1). lia.
  - eapply IH; eauto.
Qed.

Lemma block_len_in begin : forall l len, block_len begin l = Some len -> exists b, In b l /\ bbeg b = begin /\ blen b = len.
Proof.
  induction l as [|b r IH]; intros len H; cbn [block_len] in H; [discriminate|].
  destruct (bbeg b =? begin) eqn:E.
  - inversion H; subst. exists b. split; [left; reflexivity|split; [lia|reflexivity]].
  - destruct (IH _ H) as (b' & Hin & H1 & H2). exists b'. split; [right; exact Hin|auto].
Qed.

Lemma classic_covered bl x : covered bl x \/ ~ covered bl x.
Proof.
  induction bl as [|b r IH].
  - right. apply covered_nil.
  - destruct (Z_le_dec (bbeg b) x) as [H1|H1]; [destruct (Z_lt_dec x (bbeg b + blen b)) as [H2|H2]|].
    + left. exists b. split; [left; reflexivity|lia].
    + destruct IH as [(c & Hin & Hr)|IH]; [left; exists c; split; [right; exact Hin|exact Hr]|].
      right. intros (c & [<-|Hin] & Hr); [lia|]. apply IH. exists c. auto.
    + destruct IH as [(c & Hin & Hr)|IH]; [left; exists c; split; [right; exact Hin|exact Hr]|].
      right. intros (c & [<-|Hin] & Hr); [lia|]. apply IH. exists c. auto.
Qed.

(* history of accepted blocks *)
Record DInv (plen : Z) (d : pdl) (hist : list (Z * list Z)) : Prop := {
  di_len : zlen (pd_buf d) = plen;
  di_done : map fst hist = pd_done d;
  di_nodup : NoDup (pd_done d);
  di_sub : incl (pd_done d) (map bbeg (pd_blocks d));
  di_hist : forall b data, In (b, data) hist ->
              (exists blk, In blk (pd_blocks d) /\ bbeg blk = b /\ blen blk = zlen data) /\ slice (pd_buf d) b (zlen data) = data;
  di_zero : forall k, (k < Z.to_nat plen)%nat ->
              (forall b data, In (b, data) hist -> ~ (b <= Z.of_nat k < b + zlen data)) -> nth k (pd_buf d) 0 = 0
}.

Lemma zmem_true x l : zmem x l = true <-> In x l.
Proof.
  unfold zmem. rewrite existsb_exists. split.
  - intros (y & Hy & E). assert (x = y) by lia. subst. exact Hy.
  - intros H. exists x. split; [exact H|lia].
Qed.

Lemma NoDup_app_one (l : list Z) x : NoDup l -> ~ In x l -> NoDup (l ++ [x]).
Proof.
  induction l as [|y r IH]; intros Hn Hx; cbn.
  - constructor; [intros []|constructor].
  - inversion Hn; subst. constructor.
    + intros Hc. apply in_app_or in Hc as [Hc|[Hc|[]]]; [contradiction|]. apply Hx. left. symmetry. exact Hc.
    + apply IH; [assumption|]. intros Hc. apply Hx. right. exact Hc.
Qed.

Theorem got_blk_inv plen d hist begin data : ordered 0 (pd_blocks d) plen -> DInv plen d hist ->
  let '(d', g) := got_blk d begin data in
  match g with
  | GInvalid | GDuplicate => d' = d
  | GOk | GNotRequested =>
      DInv plen d' (hist ++ [(begin, data)]) /\ pd_blocks d' = pd_blocks d /\
      (exists blk, In blk (pd_blocks d) /\ bbeg blk = begin /\ blen blk = zlen data) /\ ~ In begin (pd_done d)
  end.
Proof.
  intros Ho [Hl Hd Hnodup Hsub Hh Hz]. unfold got_blk, find_block.
  destruct (block_len begin (pd_blocks d)) as [len|] eqn:Eb; cbn [negb]; [|reflexivity].
  destruct (len =? zlen data) eqn:El; cbn [negb]; [|reflexivity].
  destruct (zmem begin (pd_done d)) eqn:Ed; [reflexivity|].
  assert (Hnd : ~ In begin (pd_done d)) by (intros Hc; apply zmem_true in Hc; congruence).
  destruct (block_len_in _ _ _ Eb) as (blk & Hin & Hbb & Hbl).
  destruct (ordered_in _ _ _ _ Ho Hin) as (Hlo & Hpos & Hhi).
  assert (Hrange : 0 <= begin /\ begin + zlen data <= zlen (pd_buf d)) by lia.
  assert (G : DInv plen {| pd_blocks := pd_blocks d; pd_remaining := pd_remaining d; pd_pending := zrem begin (pd_pending d);
                            pd_done := pd_done d ++ [begin]; pd_buf := put (pd_buf d) begin data; pd_af := pd_af d; pd_fast := pd_fast d |}
                     (hist ++ [(begin, data)])).
  { constructor; cbn [pd_buf pd_done pd_blocks].
    - rewrite put_len; lia.
    - rewrite map_app, Hd. reflexivity.
    - apply NoDup_app_one; assumption.
    - intros x Hx. apply in_app_or in Hx as [Hx|[<-|[]]]; [apply Hsub; exact Hx|].
      rewrite <- Hbb. apply in_map. exact Hin.
    - intros b dt Hi. apply in_app_or in Hi as [Hi|[Hi|[]]].
      + destruct (Hh _ _ Hi) as ((blk' & Hin' & Hb' & Hl') & Hs). split; [eauto|].
        assert (Hne : bbeg blk' <> bbeg blk).
        { intros E. apply Hnd. rewrite <- Hd. apply in_map_iff. exists (b, dt). split; [cbn; lia|exact Hi]. }
        destruct (ordered_in _ _ _ _ Ho Hin') as (Q1 & Q2 & Q3).
        pose proof (zlen_nonneg dt) as Hdn.
        assert (Hdis : b + zlen dt <= begin \/ begin + zlen data <= b)
          by (destruct (ordered_disjoint _ _ _ _ _ Ho Hin' Hin Hne); lia).
        rewrite slice_put_other by lia. exact Hs.
      + inversion Hi; subst b dt. split; [exists blk; auto; split; [exact Hin|split; lia]|]. apply put_slice_same; lia.
    - intros k Hk Hnone. rewrite nth_put_other; try lia.
      + apply Hz; [exact Hk|]. intros b dt Hi. apply Hnone. apply in_or_app. left; exact Hi.
      + assert (Hlast : In (begin, data) (hist ++ [(begin, data)])) by (apply in_or_app; right; left; reflexivity).
        specialize (Hnone begin data Hlast). unfold zlen in *. lia. }
  destruct (zmem begin (pd_pending d)); (split; [exact G|split; [reflexivity|split; [exists blk; split; [exact Hin|split; lia]|exact Hnd]]]).
Qed.

(* the piece writer: hash check first, then the write of C02 *)
Section Writer.
Variable hash : list Z -> Z.
Definition write_piece (H : Z) (plen : Z) (st : storage) (secs : list section) (buf : list Z) : res storage * bool :=
  if (zlen buf =? plen) && (hash buf =? H) then (write_secs st secs buf, true) else (Ok st, false).

(* storage is modified only by a buffer of the piece's length whose hash equals the recorded one *)
Theorem written_is_verified H plen st secs buf r : write_piece H plen st secs buf = (r, true) ->
  zlen buf = plen /\ hash buf = H /\ r = write_secs st secs buf.
Proof.
  unfold write_piece. destruct ((zlen buf =? plen) && (hash buf =? H)) eqn:E; intros Hr; inversion Hr; subst. repeat split; lia.
Qed.

Theorem hash_mismatch_writes_nothing H plen st secs buf r : write_piece H plen st secs buf = (r, false) -> r = Ok st.
Proof. unfold write_piece. destruct ((zlen buf =? plen) && (hash buf =? H)); intros Hr; inversion Hr; reflexivity. Qed.
End Writer.

Lemma new_dinv blocks plen af fast : 0 <= plen -> DInv plen (pdl_new blocks plen af fast) [].
Proof.
  intros Hp. constructor; cbn [pdl_new pd_buf pd_done].
  - unfold zlen. rewrite repeat_length. lia.
  - reflexivity.
  - constructor.
  - intros x [].
  - intros b data [].
  - intros k Hk _. apply nth_repeat.
Qed.

(* when every block has arrived and each accepted block carried the true bytes of its range, the
   assembled buffer IS the piece (padding ranges, which no block covers, are the zeros the buffer
   was created with) *)
Lemma ordered_begins_nodup : forall bl lo hi, ordered lo bl hi -> NoDup (map bbeg bl).
Proof.
  induction bl as [|b r IH]; intros lo hi Ho; cbn; [constructor|]. destruct Ho as (A & B & C).
  constructor; [|eapply IH; eauto]. intros Hc. apply in_map_iff in Hc as (b' & E & Hin).
  destruct (ordered_in _ _ _ _ C Hin). lia.
Qed.

Theorem assembled_is_truth plen d hist truth :
  ordered 0 (pd_blocks d) plen -> DInv plen d hist -> pd_finished d = true -> zlen truth = plen ->
  (forall k, 0 <= k < plen -> ~ covered (pd_blocks d) k -> nth (Z.to_nat k) truth 0 = 0) ->
  (forall b data, In (b, data) hist -> data = slice truth b (zlen data)) ->
  pd_buf d = truth.
Proof.
  intros Ho [Hl Hd Hnodup Hsub Hh Hz] Hfin Ht Hpad Hgood.
  unfold pd_finished in Hfin. apply Nat.eqb_eq in Hfin.
  assert (Hall : incl (map bbeg (pd_blocks d)) (pd_done d)).
  { apply NoDup_length_incl; [exact Hnodup|rewrite map_length; lia|exact Hsub]. }
  apply nth_ext with (d := 0) (d' := 0); [unfold zlen in *; lia|].
  intros k Hk.
  assert (Hkp : (k < Z.to_nat plen)%nat) by (unfold zlen in *; lia).
  destruct (classic_covered (pd_blocks d) (Z.of_nat k)) as [(blk & Hin & Hr)|Hnc].
  - assert (Hd1 : In (bbeg blk) (pd_done d)) by (apply Hall, in_map, Hin).
    rewrite <- Hd in Hd1. apply in_map_iff in Hd1 as ((b, data) & Eb & Hi). cbn in Eb. subst b.
    destruct (Hh _ _ Hi) as ((blk' & Hin' & Hb' & Hl') & Hs).
    assert (blk' = blk).
    { destruct (Z.eq_dec (bbeg blk') (bbeg blk)) as [E|E]; [|lia].
      clear - Ho Hin Hin' E. revert Ho Hin Hin' E. generalize 0. induction (pd_blocks d) as [|x r IH]; intros lo Ho Hin Hin' E; [destruct Hin|].
      destruct Ho as (A & B & C). destruct Hin as [<-|Hin], Hin' as [<-|Hin']; auto.
      - destruct (ordered_in _ _ _ _ C Hin'). lia.
      - destruct (ordered_in _ _ _ _ C Hin). lia.
      - eapply IH; eauto. }
    subst blk'.
    pose proof (Hgood _ _ Hi) as Hg. rewrite Hg in Hs at 2.
    (* nth k of both equals nth (k - b) of the slices *)
    assert (Hsl : forall l, nth k l 0 = nth (k - Z.to_nat (bbeg blk)) (slice l (bbeg blk) (zlen data)) 0).
    { intros l. unfold slice. rewrite nth_firstn'. destruct (_ <? _)%nat eqn:E.
      - rewrite nth_skipn'. f_equal. lia.
      - apply Nat.ltb_ge in E. unfold zlen in *. lia. }
    rewrite (Hsl (pd_buf d)), (Hsl truth), Hs. reflexivity.
  - rewrite Hz; [|exact Hkp|].
    + symmetry. rewrite <- (Nat2Z.id k). apply Hpad; [lia|exact Hnc].
    + intros b data Hi Hr. destruct (Hh _ _ Hi) as ((blk & Hin & Hb & Hlen) & _).
      apply Hnc. exists blk. split; [exact Hin|lia].
Qed.

(* the verifier: a bit in its result means that every byte of the piece was read and equals the content *)
Lemma verifier_marks_only_good_pieces np r bits : run_verifier (np :: r) = 0 :: bits ->
  forall i, nth i bits 0 = 1 ->
  exists s e, nth_error (firstn (Z.to_nat np) (ver_pairs r)) i = Some (s, e) /\ s = false /\ e = true.
Proof.
  unfold run_verifier. set (ps := firstn (Z.to_nat np) (ver_pairs r)).
  destruct (existsb fst ps) eqn:E; [discriminate|]. intros H i Hi. injection H as <-.
  assert (G : forall (l : list (bool * bool)) i, existsb fst l = false -> nth i (map (fun p => b2z (snd p)) l) 0 = 1 ->
              exists s e, nth_error l i = Some (s, e) /\ s = false /\ e = true).
  { induction l as [|[s e] l IH]; intros [|k] Hf Hn; cbn in *; try discriminate.
    - apply orb_false_iff in Hf. destruct Hf as [Hs _]. exists s, e. destruct e; [auto|discriminate].
    - apply orb_false_iff in Hf. destruct Hf as [_ Hl]. exact (IH k Hl Hn). }
  exact (G ps i E Hi).
Qed.

(* ---------- C17: outstanding block requests per peer ---------- *)
(* RequestBlocks(q) never lets the set of in-flight requests grow beyond q (when it was within q);
   received blocks, rejects and chokes only shrink the set *)
Lemma req_blocks_pending : forall rem d q sent d' sent', req_blocks d rem q sent = (d', sent') ->
  zlen (pd_pending d') <= Z.max q (zlen (pd_pending d)).
Proof.
  induction rem as [|b r IH]; intros d q sent d' sent' H; cbn [req_blocks] in H.
  - inversion H; subst. lia.
  - destruct (zlen (pd_pending d) >=? q) eqn:Eq; [inversion H; subst; lia|].
    apply IH in H. cbn [pd_pending] in H. destruct (zmem b (pd_pending d)) eqn:Em; [lia|].
    rewrite zlen_app in H. change (zlen [b]) with 1 in H. lia.
Qed.

Theorem request_blocks_bounded d q d' sent : request_blocks d q = (d', sent) ->
  zlen (pd_pending d') <= Z.max q (zlen (pd_pending d)).
Proof. unfold request_blocks. apply req_blocks_pending. Qed.

Lemma zlen_zrem_le x l : zlen (zrem x l) <= zlen l.
Proof.
  unfold zrem, zlen. induction l as [|y r IH]; cbn [filter length]; [lia|]. destruct (negb (y =? x)); cbn [length]; lia.
Qed.

Theorem got_blk_pending_shrinks d begin data : zlen (pd_pending (fst (got_blk d begin data))) <= zlen (pd_pending d).
Proof.
  unfold got_blk. destruct (negb (find_block d begin (zlen data))); [cbn; lia|]. destruct (zmem begin (pd_done d)); [cbn; lia|].
  destruct (zmem begin (pd_pending d)); cbn [fst pd_pending]; apply zlen_zrem_le.
Qed.

Theorem choked_pending_shrinks d : zlen (pd_pending (choked d)) <= zlen (pd_pending d).
Proof. unfold choked. destruct (pd_af d || pd_fast d); cbn [pd_pending]; [lia|]. unfold zlen. cbn. lia. Qed.

Theorem rejected_pending_shrinks d begin len : zlen (pd_pending (fst (rejected d begin len))) <= zlen (pd_pending d).
Proof. unfold rejected. destruct (find_block d begin len); cbn [fst pd_pending]; [apply zlen_zrem_le|lia]. Qed.

(* every history of the downloader's operations, with any queue lengths q_i <= Q: at most Q requests in flight *)
Inductive pdop := PReq (q : Z) | PBlock (begin : Z) (data : list Z) | PChoked | PRejected (begin len : Z).
Definition pd_apply (d : pdl) (o : pdop) : pdl :=
  match o with
  | PReq q => fst (request_blocks d q)
  | PBlock b data => fst (got_blk d b data)
  | PChoked => choked d
  | PRejected b l => fst (rejected d b l)
  end.

Theorem pipeline_bounded Q blocks plen af fast ops : 0 <= Q ->
  Forall (fun o => match o with PReq q => q <= Q | _ => True end) ops ->
  zlen (pd_pending (fold_left pd_apply ops (pdl_new blocks plen af fast))) <= Q.
Proof.
  intros HQ Hops.
  assert (G : forall ops d, zlen (pd_pending d) <= Q -> Forall (fun o => match o with PReq q => q <= Q | _ => True end) ops ->
                            zlen (pd_pending (fold_left pd_apply ops d)) <= Q).
  { induction ops0 as [|o r IH]; intros d Hd Hf; cbn [fold_left]; [exact Hd|]. inversion Hf; subst. apply IH; [|assumption].
    destruct o as [q|b data| |b l]; cbn [pd_apply].
    - destruct (request_blocks d q) as [d' sent] eqn:E. cbn [fst]. pose proof (request_blocks_bounded d q d' sent E). lia.
    - pose proof (got_blk_pending_shrinks d b data). lia.
    - pose proof (choked_pending_shrinks d). lia.
    - pose proof (rejected_pending_shrinks d b l). lia. }
  apply G; [|exact Hops]. unfold pdl_new, zlen. cbn. lia.
Qed.

(* C13 — magnet metadata: safe assembly of announced metadata; (magnet round trip: see note) *)
From RainV Require Import Lib InfoDl InfoDlProofs.

(* whatever metadata blocks a peer sends -- any index, any size, duplicates, unrequested -- the
   assembly buffer keeps exactly the announced size and an accepted block lies inside it *)
Theorem C13_got_block_safe : forall size d index data, IInv size d ->
  IInv size (fst (got_block d index data)) /\
  (snd (got_block d index data) = IOk -> 0 <= index * mblock /\ index * mblock + zlen data <= size).
Proof. exact got_block_safe. Qed.
Print Assumptions C13_got_block_safe.

Theorem C13_new_downloader_well_formed : forall size, 0 <= size -> IInv size (idl_new size).
Proof. exact new_inv. Qed.
Print Assumptions C13_new_downloader_well_formed.

Theorem C13_request_blocks_preserve : forall size fuel d q acc, IInv size d ->
  IInv size (fst (request_blocks fuel d q acc)).
Proof. exact request_blocks_inv. Qed.
Print Assumptions C13_request_blocks_preserve.

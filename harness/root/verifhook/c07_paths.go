//go:build verif

package verifhook

import (
	"archive/tar"
	"bytes"
	"io/fs"
	"math/rand"
	"os"
	"path"
	"path/filepath"
	"strings"

	"github.com/cenkalti/rain/v2/internal/metainfo"
	"github.com/cenkalti/rain/v2/internal/storage/filestorage"
	"github.com/cenkalti/rain/v2/torrent"
	"github.com/zeebo/bencode"
)

func encStr(s string) []int64 {
	o := []int64{int64(len(s))}
	for i := 0; i < len(s); i++ {
		o = append(o, int64(s[i]))
	}
	return o
}

func decStr(in []int64) (string, []int64) {
	n := int(in[0])
	b := make([]byte, n)
	for i := 0; i < n; i++ {
		b[i] = byte(in[1+i])
	}
	return string(b), in[1+n:]
}

var pathAtoms = []string{".", "..", "/", "\\", "a", "b", "x.txt", " ", "\t", " ", " ", "\xff", "\xc3", "\xe2\x82", "é", "€", "_", "..", ".", "/", "\x00", "...", " ..", ".. "}

func genPathStr(r *rand.Rand, maxAtoms int, allowNUL bool) string {
	var b strings.Builder
	n := r.Intn(maxAtoms + 1)
	for i := 0; i < n; i++ {
		a := pathAtoms[r.Intn(len(pathAtoms))]
		if a == "\x00" && !allowNUL {
			a = "n"
		}
		if r.Intn(12) == 0 {
			a = string([]byte{byte(r.Intn(256))})
			if a == "\x00" && !allowNUL {
				a = "n"
			}
		}
		b.WriteString(a)
	}
	return b.String()
}

func genLongName(r *rand.Rand) string {
	// over-long names with multi-byte runes around the cut points and long extensions
	base := strings.Repeat([]string{"a", "é", "€", "😀", "\xff"}[r.Intn(5)], 60+r.Intn(80))
	if r.Intn(2) == 0 {
		base = base[:len(base)-r.Intn(3)]
	}
	ext := ""
	switch r.Intn(4) {
	case 0:
		ext = ".txt"
	case 1:
		ext = "." + strings.Repeat("e", 250+r.Intn(10))
	case 2:
		ext = ".é€" + strings.Repeat("x", r.Intn(20))
	}
	pad := strings.Repeat("z", r.Intn(60))
	switch r.Intn(3) {
	case 0: // separators and dot-dot inside an over-long name (must not survive cleaning)
		pad = []string{"../../e-", "x/../../../", "/", "a/b/", "../"}[r.Intn(5)] + pad
	case 1:
		base = base[:len(base)/2] + []string{"/../", "/", "/./"}[r.Intn(3)] + base[len(base)/2:]
	}
	return pad + base + ext
}

// 701: NewInfo on crafted names/paths
func runAcceptPaths(in []int64) []int64 {
	name, rest := decStr(in)
	nf := int(rest[0])
	rest = rest[1:]
	d := map[string]any{"name": name}
	if nf == 0 {
		d["length"] = int64(1)
		d["piece length"] = int64(16384)
		d["pieces"] = string(make([]byte, 20))
	} else {
		fs := make([]benFile, nf)
		for i := 0; i < nf; i++ {
			pad := rest[0] != 0
			nc := int(rest[1])
			rest = rest[2:]
			var comps []string
			for k := 0; k < nc; k++ {
				var c string
				c, rest = decStr(rest)
				comps = append(comps, c)
			}
			if comps == nil {
				comps = []string{}
			}
			fs[i] = benFile{Length: 1, Path: comps}
			if pad {
				fs[i].Attr = "p"
			}
		}
		d["files"] = fs
		d["piece length"] = int64(16384)
		d["pieces"] = string(make([]byte, 20))
	}
	b, err := bencode.EncodeBytes(d)
	if err != nil {
		return []int64{-701}
	}
	info, err := metainfo.NewInfo(b, true, true)
	if err != nil {
		return []int64{0}
	}
	obs := []int64{1}
	for _, f := range info.Files {
		obs = append(obs, encStr(f.Path)...)
	}
	return obs
}

func genAcceptPaths(r *rand.Rand, tier string) Case {
	name := genPathStr(r, 4, true)
	if r.Intn(10) == 0 {
		name = genLongName(r)
	}
	if name == "" {
		name = "n"
	}
	nf := r.Intn(5)
	in := encStr(name)
	in = append(in, int64(nf))
	var prev []string
	for i := 0; i < nf; i++ {
		nc := r.Intn(4)
		var comps []string
		if len(prev) > 0 && r.Intn(4) == 0 {
			// near-duplicate of the previous file: same path, or with "." / "" inserted
			comps = append([]string{}, prev...)
			if r.Intn(2) == 0 && len(comps) > 0 {
				k := r.Intn(len(comps) + 1)
				comps = append(comps[:k], append([]string{[]string{".", ""}[r.Intn(2)]}, comps[k:]...)...)
			}
		} else {
			for k := 0; k < nc; k++ {
				c := genPathStr(r, 3, true)
				if r.Intn(25) == 0 {
					c = genLongName(r)
				}
				comps = append(comps, c)
			}
		}
		prev = comps
		in = append(in, b2i(r.Intn(5) == 0), int64(len(comps)))
		for _, c := range comps {
			in = append(in, encStr(c)...)
		}
	}
	return Case{In: in, Obs: Guard(func() []int64 { return runAcceptPaths(in) })}
}

const sandboxDepth = "/p/q/r/s/t/u"

func sandboxWalk(root string) []string {
	var files []string
	_ = filepath.Walk(root, func(p string, fi fs.FileInfo, err error) error {
		if err == nil && !fi.IsDir() {
			files = append(files, strings.TrimPrefix(p, root))
		}
		return nil
	})
	return files
}

func countDotDot(s string) int { return strings.Count(s, "..") }

// 702: FileStorage.Open path computation (pure) + real Open in a sandbox
func runOpenPath(in []int64) []int64 {
	dest, rest := decStr(in)
	name, _ := decStr(rest)
	computed := filepath.Join(dest, filepath.Clean(name))
	flag := int64(1)
	if strings.HasPrefix(dest, sandboxDepth) && countDotDot(name)+countDotDot(dest) <= 5 && !strings.Contains(name+dest, "\x00") {
		sb, err := os.MkdirTemp("/verif/.work", "sb")
		if err == nil {
			defer os.RemoveAll(sb)
			st, err := filestorage.New(sb+dest, 0o750)
			if err == nil {
				f, _, err := st.Open(name, 1)
				if err == nil && f != nil {
					f.Close()
					fl := sandboxWalk(sb)
					if len(fl) != 1 || fl[0] != computed {
						flag = 2
					}
				}
			}
		}
	}
	return append(encStr(computed), flag)
}

func genOpenPath(r *rand.Rand, tier string) Case {
	dest := sandboxDepth + "/" + []string{"d", "data/x", "d.d", "..d", "d/e/f"}[r.Intn(5)]
	if r.Intn(8) == 0 {
		dest = []string{"/", "/a", "/a/b"}[r.Intn(3)]
	}
	var name string
	if r.Intn(2) == 0 {
		// what NewInfo produces: cleaned joined paths
		parts := []string{metainfo.CleanName(genPathStr(r, 3, false))}
		for k := r.Intn(3); k > 0; k-- {
			parts = append(parts, metainfo.CleanName(genPathStr(r, 3, false)))
		}
		name = filepath.Join(parts...)
	} else {
		name = genPathStr(r, 6, false)
	}
	in := append(encStr(dest), encStr(name)...)
	return Case{In: in, Obs: Guard(func() []int64 { return runOpenPath(in) })}
}

// 703: readData on a one-entry tar inside a sandbox
func runTarTarget(in []int64) []int64 {
	dir, rest := decStr(in)
	entry, _ := decStr(rest)
	var buf bytes.Buffer
	tw := tar.NewWriter(&buf)
	if err := tw.WriteHeader(&tar.Header{Name: entry, Mode: 0o600, Size: 1, Typeflag: tar.TypeReg, Format: tar.FormatPAX}); err != nil {
		return []int64{-702}
	}
	_, _ = tw.Write([]byte{7})
	_ = tw.Close()
	sb, err := os.MkdirTemp("/verif/.work", "sb")
	if err != nil {
		return []int64{-703}
	}
	defer os.RemoveAll(sb)
	err = torrent.ReadDataForVerif(bytes.NewReader(buf.Bytes()), sb+dir, 0o750)
	fl := sandboxWalk(sb)
	if err != nil {
		if len(fl) != 0 {
			return append([]int64{2}, encStr(fl[0])...)
		}
		return []int64{0}
	}
	if len(fl) != 1 {
		return []int64{3, int64(len(fl))}
	}
	return append([]int64{1}, encStr(fl[0])...)
}

func genTarTarget(r *rand.Rand, tier string) Case {
	dir := sandboxDepth + "/" + []string{"d", "data/x", "d/", "d/./e", "d/../d2", "d//e"}[r.Intn(6)]
	atoms := []string{".", "..", "/", "a", "b", "x.txt", " ", "..", "/", "c", "d", "../", "./"}
	var b strings.Builder
	for k := r.Intn(7); k > 0; k-- {
		b.WriteString(atoms[r.Intn(len(atoms))])
	}
	entry := b.String()
	if r.Intn(4) == 0 {
		// sibling directories sharing a name prefix with the destination
		base := filepath.Base(filepath.Clean(dir))
		entry = []string{"../", "x/../../", "./../"}[r.Intn(3)] + base + []string{"0", "x", ".bak", "-other", ""}[r.Intn(5)] + []string{"/f", "/sub/f", ""}[r.Intn(3)]
	}
	if countDotDot(entry) > 5 {
		entry = "a/../b"
	}
	for {
		var buf bytes.Buffer
		tw := tar.NewWriter(&buf)
		if tw.WriteHeader(&tar.Header{Name: entry, Mode: 0o600, Size: 1, Typeflag: tar.TypeReg, Format: tar.FormatPAX}) == nil {
			break
		}
		entry = strings.TrimRight(entry, "/") // the tar writer refuses some names (e.g. regular file with a trailing slash)
		if entry == "" {
			entry = "a"
		}
	}
	in := append(encStr(dir), encStr(entry)...)
	return Case{In: in, Obs: Guard(func() []int64 { return runTarTarget(in) })}
}

// 704: string functions
func runStrFuncs(in []int64) []int64 {
	s, _ := decStr(in)
	var o []int64
	o = append(o, encStr(metainfo.CleanName(s))...)
	o = append(o, encStr(strings.TrimSpace(s))...)
	o = append(o, encStr(filepath.Clean(s))...)
	o = append(o, encStr(path.Ext(s))...)
	return o
}

func genStrFuncs(r *rand.Rand, tier string) Case {
	var s string
	switch r.Intn(4) {
	case 0:
		s = genLongName(r)
	case 1:
		b := make([]byte, r.Intn(12))
		for i := range b {
			b[i] = byte(r.Intn(256))
		}
		s = string(b)
	default:
		s = genPathStr(r, 8, true)
	}
	in := encStr(s)
	return Case{In: in, Obs: Guard(func() []int64 { return runStrFuncs(in) })}
}

func init() {
	Register(701, "metainfo.NewInfo on crafted names and path components", genAcceptPaths)
	RegisterReplay(701, runAcceptPaths)
	Register(702, "FileStorage.Open path (filepath.Join/Clean) + real Open in a sandbox", genOpenPath)
	RegisterReplay(702, runOpenPath)
	Register(703, "torrent.readData on one-entry tar archives in a sandbox", genTarTarget)
	RegisterReplay(703, runTarTarget)
	Register(704, "cleanName / strings.TrimSpace / filepath.Clean / path.Ext on generated byte strings", genStrFuncs)
	RegisterReplay(704, runStrFuncs)
}

#!/bin/bash
# seedcmp.sh <kind> <seedid>... : developer helper, apply a seeded change, run cmp.sh for the kind, undo
kind=$1; shift
for id in "$@"; do
  git -C /repo apply /verif/seeded/$id/patch.diff || { echo "$id: APPLY FAILED"; continue; }
  /verif/bin/hbuild.sh >/dev/null 2>&1 || echo "$id: build failed"
  echo "== $id: $(/verif/bin/cmp.sh $kind 11 1500 | tail -1)"
  git -C /repo checkout -- .
done
/verif/bin/hbuild.sh

#!/bin/bash
# Build the Coq development (full .vo build) and the extracted OCaml model runner.
set -e
cd /verif/coq
[ -f Makefile ] && [ Makefile -nt _CoqProject ] || coq_makefile -f _CoqProject -o Makefile >/dev/null
timeout 3000 make -j16 theories/Entry.vo "$@"
mkdir -p /verif/ocaml/build && cd /verif/ocaml/build
if [ ! -x modelrun ] || [ -n "$(find /verif/coq/theories /verif/coq/Extract.v /verif/ocaml/main.ml -newer modelrun 2>/dev/null | head -1)" ]; then
  timeout 600 coqc -Q /verif/coq/theories RainV /verif/coq/Extract.v >/dev/null
  rm -f /verif/coq/Extract.vo /verif/coq/Extract.glob /verif/coq/.Extract.aux /verif/coq/Extract.vok /verif/coq/Extract.vos
  cp /verif/ocaml/main.ml .
  ocamlfind ocamlopt -O2 -w -a model.mli model.ml main.ml -o modelrun 2>/dev/null || ocamlfind ocamlopt -w -a model.mli model.ml main.ml -o modelrun
fi

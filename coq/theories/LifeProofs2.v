From RainV Require Import Lib Life LifeProofs.
From Coq Require Import ZifyBool.

(* stop from a started state, whatever do_verify is *)
Lemma linv_stop_started s : started s = true -> crashed s = false -> complC_closed s = completed s ->
  (completed s = true -> match bf s with Some b => all_true b = true | None => True end) ->
  (stopping s = true -> has_pieces s = false /\ alloc s = false /\ verif s = false) ->
  held s = (if has_pieces s then nfiles s else 0) -> pending s = (if alloc s then nfiles s else 0) -> leaked s = 0 ->
  LInv (do_stop true s).
Proof.
  intros Es A B C D G I J. unfold do_stop. rewrite Es. cbn [negb orb].
  destruct (stopping s) eqn:E2.
  - destruct (D eq_refl) as (D1 & D2 & D3). unfold with_restart. constructor; cbn; rewrite ?Es, ?E2, ?D1, ?D2, ?D3 in *; try fin.
    all: try (intros Hc; specialize (C Hc); destruct (bf s); [exact C|right; right; right; reflexivity]).
  - constructor; cbn; try fin.
    all: try (intros Hc; specialize (C Hc); destruct (bf s); [exact C|right; right; right; reflexivity]).
Qed.

Lemma linv_verify_cmd s : LInv s -> LInv (do_verify_cmd true s).
Proof.
  intros H. unfold do_verify_cmd. cbn [started set].
  destruct H as [A B C D F G I J K L M N].
  destruct (started s) eqn:Es; cbn [negb].
  - apply linv_stop_started; cbn; auto.
    all: try (intros Hc; specialize (C Hc); destruct (bf s); auto; fail).
    all: try (intros E; apply D; right; exact E).
  - destruct (D (or_introl eq_refl)) as (D1 & D2 & D3).
    assert (E2 : stopping s = false) by (destruct (stopping s) eqn:E; [specialize (N eq_refl); congruence|reflexivity]).
    apply linv_start_stopped; cbn; rewrite ?D1, ?D2, ?D3 in *; try fin.
    all: try (rewrite G, D1; reflexivity).
    all: try (rewrite I, D2; reflexivity).
Qed.

Lemma linv_start_verifier_w s : crashed s = false -> complC_closed s = completed s ->
  (completed s = true -> match bf s with Some b => all_true b = true | None => True end) ->
  started s = true -> stopping s = false -> alloc s = false -> verif s = false -> has_pieces s = true ->
  held s = nfiles s -> pending s = 0 -> leaked s = 0 -> (do_verify s = true -> bf s = None) ->
  LInv (start_verifier s).
Proof.
  intros A B C S1 S2 S3 S4 S5 G I J M. unfold start_verifier. constructor; cbn; rewrite ?S1, ?S2, ?S3, ?S4, ?S5 in *; try fin.
  all: try (intros Hc; specialize (C Hc); destruct (bf s); [exact C|right; left; reflexivity]).
  all: try (intros Hd; split; [reflexivity|right; apply M; exact Hd]).
Qed.

(* a running state (not allocating / verifying) built from explicit facts *)
Lemma linv_running s : crashed s = false -> complC_closed s = completed s ->
  started s = true -> stopping s = false -> alloc s = false -> verif s = false -> has_pieces s = true ->
  held s = nfiles s -> pending s = 0 -> leaked s = 0 -> do_verify s = false ->
  (exists b, bf s = Some b /\ (completed s = true -> all_true b = true)) -> LInv s.
Proof.
  intros A B S1 S2 S3 S4 S5 G I J M (b & Eb & Hb). constructor; rewrite ?S1, ?S2, ?S3, ?S4, ?S5, ?Eb, ?M in *; try fin.
  all: try (intros _ _ _ _; repeat split; congruence).
Qed.

Lemma linv_alloc_done s he hm po : LInv s -> LInv (alloc_done true s he hm po).
Proof.
  intros H. unfold alloc_done. destruct (alloc s) eqn:Ea; cbn [negb]; [|exact H].
  destruct H as [A B C D F G I J K L M N].
  destruct (K Ea) as (K1 & K2).
  assert (S1 : started s = true) by (destruct (started s) eqn:E; [reflexivity|destruct (D (or_introl eq_refl)) as (_ & X & _); congruence]).
  assert (S2 : stopping s = false) by (destruct (stopping s) eqn:E; [destruct (D (or_intror eq_refl)) as (_ & X & _); congruence|reflexivity]).
  rewrite K2 in G. rewrite Ea in I.
  cbn [bf set]. cbv iota.
  (* the two shapes of the state after the old bitfield has been dropped *)
  assert (Hfresh : forall pe dv, dv = do_verify s ->
     LInv (let s3 := set s true false false false (completed s) (complC_closed s) true (Some po) dv (held s + pending s) 0 (leaked s) pe (crashed s) in
           let s4 := if all_true po then s3 else reset_completion true s3 in
           if true && do_verify s4 then do_stop true (set s4 (started s4) (stopping s4) false (verif s4) (completed s4) (complC_closed s4) true (bf s4) false (held s4) (pending s4) (leaked s4) (persisted s4) (crashed s4))
           else if true then check_completion s4 else s4)).
  { intros pe dv Edv. cbv zeta. cbv iota. cbn [andb].
    destruct dv eqn:Ed; destruct (all_true po) eqn:Ep; unfold reset_completion; cbn [do_verify set].
    - apply linv_stop_started; cbn; rewrite ?S1, ?S2, ?K1 in *; try fin. all: try (intros _; exact Ep).
    - apply linv_stop_started; cbn; rewrite ?S1, ?S2, ?K1 in *; try fin. all: try (intros X; discriminate).
    - apply linv_check_completion; cbn; auto. apply linv_running; cbn; rewrite ?S1, ?S2, ?K1 in *; try fin. exists po. split; [reflexivity|]. intros _. exact Ep.
    - apply linv_check_completion; cbn; auto. apply linv_running; cbn; rewrite ?S1, ?S2, ?K1 in *; try fin. exists po. split; [reflexivity|]. intros X; discriminate. }
  destruct (bf s) as [b|] eqn:Eb.
  - assert (Hdv : do_verify s = false).
    { destruct (do_verify s) eqn:E; [|reflexivity]. destruct (M eq_refl) as [_ [X|X]]; congruence. }
    destruct (negb hm) eqn:Ehm.
    + apply linv_check_completion; cbn; auto. apply linv_running; cbn; rewrite ?S1, ?S2, ?K1 in *; try fin. exists b. split; [reflexivity|]. intros Hc. exact (C Hc).
    + apply Bool.negb_false_iff in Ehm. rewrite Ehm. cbn [andb].
      cbn [started stopping verif completed complC_closed do_verify held pending leaked persisted crashed bf set].
      rewrite S1, S2, K1. destruct (negb he).
      * apply (Hfresh (Some po) (do_verify s)). reflexivity.
      * apply linv_start_verifier_w; cbn; rewrite ?S1, ?S2, ?K1 in *; try fin.
  - destruct hm; cbn [andb].
    + cbn [started stopping verif completed complC_closed do_verify held pending leaked persisted crashed bf set].
      rewrite S1, S2, K1. destruct (negb he).
      * apply (Hfresh (Some po) (do_verify s)). reflexivity.
      * apply linv_start_verifier_w; cbn; rewrite ?S1, ?S2, ?K1 in *; try fin.
    + cbn [started stopping verif completed complC_closed do_verify held pending leaked persisted crashed bf set].
      rewrite S1, S2, K1. destruct (negb he).
      * apply (Hfresh (Some po) (do_verify s)). reflexivity.
      * apply linv_start_verifier_w; cbn; rewrite ?S1, ?S2, ?K1, ?Eb in *; try fin.
Qed.

Lemma linv_verify_done s : LInv s -> LInv (verify_done true s).
Proof.
  intros H. unfold verify_done. destruct (verif s) eqn:Ev; cbn [negb]; [|exact H].
  destruct H as [A B C D F G I J K L M N].
  pose proof (L Ev) as Hp.
  assert (S1 : started s = true) by (destruct (started s) eqn:E; [reflexivity|destruct (D (or_introl eq_refl)) as (_ & _ & X); congruence]).
  assert (S2 : stopping s = false) by (destruct (stopping s) eqn:E; [destruct (D (or_intror eq_refl)) as (_ & _ & X); congruence|reflexivity]).
  assert (S3 : alloc s = false) by (destruct (alloc s) eqn:E; [destruct (K eq_refl) as (X & _); congruence|reflexivity]).
  rewrite Hp in G. rewrite S3 in I.
  destruct (do_verify s) eqn:Edv; destruct (all_true (pok s)) eqn:Ep; unfold reset_completion; cbn [do_verify set]; rewrite ?Edv.
  - apply linv_stop_started; cbn; rewrite ?S1, ?S2, ?S3, ?Hp in *; try fin. all: try (intros _; exact Ep).
  - apply linv_stop_started; cbn; rewrite ?S1, ?S2, ?S3, ?Hp in *; try fin. all: try (intros X; discriminate).
  - apply linv_check_completion; cbn; auto. apply linv_running; cbn; rewrite ?S1, ?S2, ?S3, ?Hp in *; try fin.
    exists (pok s). split; [reflexivity|]. intros _. exact Ep.
  - apply linv_check_completion; cbn; auto. apply linv_running; cbn; rewrite ?S1, ?S2, ?S3, ?Hp in *; try fin.
    exists (pok s). split; [reflexivity|]. intros X; discriminate.
Qed.

(* Model of markFileEdges / fileEdgeSize (internal/piecepicker/piecepicker.go): which pieces hold
   data from the first or the last bytes of a file (sequential mode downloads these first).
   File names are compared; the model compares file indexes (names are distinct, C07). *)
From RainV Require Import Lib Geometry.

Definition max_edge : Z := 8388608.   (* 8 MiB *)
Definition edge_size (sz : Z) : Z := Z.max (Z.min (sz / 100) max_edge) 1.

(* sizes[name] = max over the non-padding sections of the file of Offset+Length (0 when there is none) *)
Definition file_size (ps : list piece) (f : nat) : Z :=
  fold_left (fun m s => if negb (spad s) && Nat.eqb (sfile s) f then Z.max m (soff s + slen s) else m)
            (flat_map psecs ps) 0.

Definition sec_head (ps : list piece) (s : section) : bool :=
  negb (spad s) && (soff s <? edge_size (file_size ps (sfile s))).
Definition sec_tail (ps : list piece) (s : section) : bool :=
  negb (spad s) && (soff s + slen s >? file_size ps (sfile s) - edge_size (file_size ps (sfile s))).

Definition mark_piece (ps : list piece) (p : piece) : bool * bool :=
  (existsb (sec_head ps) (psecs p), existsb (sec_tail ps) (psecs p)).

(* kind 905: in = [PL; npieces; nfiles; (len pad)*]  out = (head tail) per piece *)
Definition run_edges (inp : list Z) : list Z :=
  match inp with
  | pl :: np :: nf :: r =>
      let fs := rd_files (Z.to_nat nf) r in
      match new_pieces fs pl (sum_flen fs) (Z.to_nat np) with
      | Ok ps => flat_map (fun p => let '(h, t) := mark_piece ps p in [b2z h; b2z t]) ps
      | _ => [-778]
      end
  | _ => [-779]
  end.

(* ---------- facts ---------- *)
From Coq Require Import Lia.

Lemma edge_size_pos sz : 1 <= edge_size sz.
Proof. unfold edge_size. lia. Qed.

Lemma edge_size_le sz : edge_size sz <= Z.max max_edge 1.
Proof. unfold edge_size, max_edge. lia. Qed.

Lemma fold_max_ge (g : section -> bool) : forall l m, m <= fold_left (fun m s => if g s then Z.max m (soff s + slen s) else m) l m.
Proof.
  induction l as [|s r IH]; intros m; cbn [fold_left]; [lia|]. destruct (g s); [|apply IH].
  pose proof (IH (Z.max m (soff s + slen s))). lia.
Qed.

Lemma fold_max_in (g : section -> bool) : forall l m s, In s l -> g s = true ->
  soff s + slen s <= fold_left (fun m s => if g s then Z.max m (soff s + slen s) else m) l m.
Proof.
  induction l as [|x r IH]; intros m s Hin Hg; [destruct Hin|]. cbn [fold_left]. destruct Hin as [->|Hin].
  - rewrite Hg. pose proof (fold_max_ge g r (Z.max m (soff s + slen s))). lia.
  - apply IH; assumption.
Qed.

(* every non-padding section ends inside its file as the picker measures it *)
Lemma sec_within_size ps p s : In p ps -> In s (psecs p) -> spad s = false -> soff s + slen s <= file_size ps (sfile s).
Proof.
  intros Hp Hs Hpad. unfold file_size. apply (fold_max_in (fun x => negb (spad x) && Nat.eqb (sfile x) (sfile s))).
  - apply in_flat_map. exists p. split; assumption.
  - rewrite Hpad, Nat.eqb_refl. reflexivity.
Qed.

(* the piece that holds the first byte of a file is a head piece, the piece that holds its last byte
   is a tail piece, whatever the file size (the edge is at least one byte wide) *)
Theorem first_and_last_piece_marked ps p s : In p ps -> In s (psecs p) -> spad s = false ->
  (soff s = 0 -> fst (mark_piece ps p) = true) /\
  (soff s + slen s = file_size ps (sfile s) -> snd (mark_piece ps p) = true).
Proof.
  intros Hp Hs Hpad. unfold mark_piece. cbn [fst snd]. split; intros H; apply existsb_exists; exists s; (split; [exact Hs|]).
  - unfold sec_head. rewrite Hpad. cbn [negb andb]. pose proof (edge_size_pos (file_size ps (sfile s))). lia.
  - unfold sec_tail. rewrite Hpad. cbn [negb andb]. pose proof (edge_size_pos (file_size ps (sfile s))). lia.
Qed.

(* a piece is marked only because of a section within the edge distance of an end of its file *)
Theorem marked_piece_is_near_an_end ps p : 
  (fst (mark_piece ps p) = true -> exists s, In s (psecs p) /\ spad s = false /\ soff s < Z.max max_edge 1) /\
  (snd (mark_piece ps p) = true -> exists s, In s (psecs p) /\ spad s = false /\
                                             file_size ps (sfile s) - Z.max max_edge 1 < soff s + slen s).
Proof.
  unfold mark_piece. cbn [fst snd]. split; intros H; apply existsb_exists in H as (s & Hs & Hc); exists s; (split; [exact Hs|]).
  - unfold sec_head in Hc. apply andb_prop in Hc as [H1 H2]. split; [destruct (spad s); [discriminate|reflexivity]|].
    pose proof (edge_size_le (file_size ps (sfile s))). lia.
  - unfold sec_tail in Hc. apply andb_prop in Hc as [H1 H2]. split; [destruct (spad s); [discriminate|reflexivity]|].
    pose proof (edge_size_le (file_size ps (sfile s))). lia.
Qed.

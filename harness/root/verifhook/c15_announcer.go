//go:build verif

package verifhook

import (
	"context"
	"math/rand"
	"net"
	"time"

	"github.com/cenkalti/rain/v2/internal/announcer"
	"github.com/cenkalti/rain/v2/internal/logger"
	"github.com/cenkalti/rain/v2/internal/tracker"
)

type annCall struct {
	event tracker.Event
	at    time.Time
	reply chan annReply
}
type annReply struct {
	resp *tracker.AnnounceResponse
	err  error
}
type scriptedTracker struct{ calls chan *annCall }

func (s *scriptedTracker) URL() string { return "http://scripted/announce" }
func (s *scriptedTracker) Announce(ctx context.Context, req tracker.AnnounceRequest) (*tracker.AnnounceResponse, error) {
	c := &annCall{event: req.Event, at: time.Now(), reply: make(chan annReply, 1)}
	select {
	case s.calls <- c:
	case <-ctx.Done():
		return nil, ctx.Err()
	}
	select {
	case r := <-c.reply:
		return r.resp, r.err
	case <-ctx.Done():
		return nil, ctx.Err()
	}
}

// runAnnouncer: in = [minInterval ms; completed_at_start; backoff ms; steps...]
func runAnnouncer(in []int64) []int64 {
	minInt := time.Duration(in[0]) * time.Millisecond
	completedC := make(chan struct{})
	if in[1] != 0 {
		close(completedC)
	}
	closedCompleted := in[1] != 0
	trk := &scriptedTracker{calls: make(chan *annCall)}
	newPeers := make(chan []*net.TCPAddr, 64)
	a := announcer.NewPeriodicalAnnouncer(trk, 50, minInt, func() tracker.Torrent { return tracker.Torrent{} }, completedC, newPeers, logger.New("verif"))
	a.SetBackoffForVerif(time.Duration(in[2]) * time.Millisecond)
	go a.Run()
	defer a.Close()
	stopDrain := make(chan struct{})
	defer close(stopDrain)
	go func() {
		for {
			select {
			case <-newPeers:
			case <-stopDrain:
				return
			}
		}
	}()
	steps := in[3:]
	var obs []int64
	wait := func() *annCall {
		select {
		case c := <-trk.calls:
			return c
		case <-time.After(1500 * time.Millisecond):
			return nil
		}
	}
	cur := wait()
	if cur == nil {
		return []int64{-1}
	}
	obs = append(obs, int64(cur.event))
	for len(steps) > 0 {
		var np int
		switch steps[0] {
		case 0:
			cur.reply <- annReply{resp: &tracker.AnnounceResponse{Interval: time.Duration(steps[1]) * time.Millisecond, MinInterval: time.Duration(steps[2]) * time.Millisecond}}
			np = int(steps[3])
			steps = steps[4:]
		case 1:
			cur.reply <- annReply{err: &tracker.Error{FailureReason: "scripted", RetryIn: time.Duration(steps[1]) * time.Millisecond}}
			np = int(steps[2])
			steps = steps[3:]
		case 2:
			cur.reply <- annReply{err: tracker.ErrDecode}
			np = int(steps[1])
			steps = steps[2:]
		case 3:
			cur.reply <- annReply{err: context.Canceled}
			np = int(steps[1])
			steps = steps[2:]
		default:
			return obs
		}
		// a timer shorter than the 20 ms window fires before the post-events: they are dropped
		var early *annCall
		select {
		case early = <-trk.calls:
		case <-time.After(20 * time.Millisecond):
		}
		for i := 0; i < np; i++ {
			if early != nil {
				steps = steps[1:]
				continue
			}
			switch steps[0] {
			case 10:
				a.NeedMorePeers(true)
			case 11:
				a.NeedMorePeers(false)
			case 12:
				if !closedCompleted {
					close(completedC)
					closedCompleted = true
				}
			}
			steps = steps[1:]
		}
		prev := cur
		if early != nil {
			cur = early
		} else {
			cur = wait()
		}
		if cur == nil {
			obs = append(obs, -1, -1)
			return obs
		}
		obs = append(obs, int64(cur.event), cur.at.Sub(prev.at).Milliseconds())
	}
	return obs
}

func genAnnouncer(r *rand.Rand, tier string) Case {
	minInt := pick(r, 150, 200, 300)
	in := []int64{minInt, b2i(r.Intn(4) == 0), pick(r, 120, 250)}
	n := 2 + r.Intn(4)
	completedSent := false
	for i := 0; i < n; i++ {
		switch r.Intn(8) {
		case 0, 1, 2, 3:
			in = append(in, 0, pick(r, 0, -1000, 100, 250, 400, minInt, 1), pick(r, 0, 0, -5, 100, 350))
		case 4:
			in = append(in, 1, pick(r, 0, 180, 300))
		case 5:
			in = append(in, 2)
		case 6:
			in = append(in, 3)
		default:
			in = append(in, 0, 300, 0)
		}
		// post events
		var ps []int64
		if r.Intn(4) == 0 {
			ps = append(ps, pick(r, 10, 11))
		}
		if !completedSent && r.Intn(5) == 0 {
			ps = append(ps, 12)
			completedSent = true
		}
		in = append(in, int64(len(ps)))
		in = append(in, ps...)
	}
	return Case{In: in, Obs: Guard(func() []int64 { return runAnnouncer(in) })}
}

func init() {
	Register(1503, "PeriodicalAnnouncer under a scripted tracker: events and gaps between announces", genAnnouncer)
	RegisterReplay(1503, runAnnouncer)
}

#!/usr/bin/env python3
import sys
f, idx = sys.argv[1], int(sys.argv[2])
line = open(f).read().splitlines()[idx]
parts = line.split('|')
inp = list(map(int, parts[1].split())); obs = list(map(int, parts[2].split()))
ts, mx, par, q, P, np_ = inp[:6]; k = 6
print(f'truesize={ts} max={mx} parallel={par} q={q} P={P} np={np_}')
names={1:'exthandshake',2:'data',3:'reject',4:'snub',5:'disconnect',6:'reqFromPeer',7:'other',12:'connect'}
o=1
while inp[k] != -1:
    ev = inp[k:k+6]; k+=6; idl = inp[k:k+P]; k+=P
    fr={}
    for p in range(P):
        c=inp[k]; k+=1
        if c: fr[p]=[tuple(inp[k+2*i:k+2*i+2]) for i in range(c)]
        k+=2*c
    st=obs[o:o+2*P+2]; o+=2*P+2
    print(f'{names.get(ev[0],ev[0]):12s} p={ev[1]} a={ev[2]} b={ev[3]} c={ev[4]} d={ev[5]} | idl={idl} closed={st[:P]} snub={st[P:2*P]} adopted,status={st[2*P:]} frames={fr}')
print('final', obs[o:])

From RainV Require Import Lib Bencode Wire WireProofs.
From Coq Require Import Lia ZArith List Bool.
Import ListNotations.
Open Scope Z_scope.

(* ---------- C03: the read-cache key of a block (cachedpiece.readBlock) ----------
   key = 20-byte id ++ big-endian piece index ++ big-endian block number: fixed width, so two
   different (id, piece, block) triples never share a key and a block of one piece is never answered
   from the cached block of another *)
Definition cache_key (id : list Z) (piece blk : Z) : list Z := id ++ be32 piece ++ be32 blk.

Lemma be32_inj x y : u32 x -> u32 y -> be32 x = be32 y -> x = y.
Proof.
  intros Hx Hy H. unfold be32 in H. inversion H as [[H1 H2 H3 H4]].
  rewrite <- (rd_be32_be32 x Hx), <- (rd_be32_be32 y Hy). rewrite H1, H2, H3, H4. reflexivity.
Qed.

Lemma app_inj_len {A} (a a' b b' : list A) : length a = length a' -> a ++ b = a' ++ b' -> a = a' /\ b = b'.
Proof.
  revert a'. induction a as [|x r IH]; intros [|y r'] Hl H; cbn [length] in Hl; try lia.
  - split; [reflexivity|exact H].
  - cbn [app] in H. inversion H; subst. destruct (IH r' ltac:(lia) H2) as [-> ->]. split; reflexivity.
Qed.

Theorem cache_key_injective id id' p p' b b' : length id = length id' -> u32 p -> u32 p' -> u32 b -> u32 b' ->
  cache_key id p b = cache_key id' p' b' -> id = id' /\ p = p' /\ b = b'.
Proof.
  intros Hl Hp Hp' Hb Hb' H. unfold cache_key in H.
  destruct (app_inj_len _ _ _ _ Hl H) as [-> H2]. split; [reflexivity|].
  destruct (app_inj_len (be32 p) (be32 p') _ _ eq_refl H2) as [E1 E2].
  split; [apply be32_inj; assumption|apply be32_inj; assumption].
Qed.

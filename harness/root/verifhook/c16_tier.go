//go:build verif

package verifhook

import (
	"context"
	"errors"
	"math/rand"

	"github.com/cenkalti/rain/v2/internal/tracker"
)

// scripted tier member: every Announce reports itself and blocks until the script answers.
type member struct {
	id     int
	called chan *call
}
type call struct {
	m     *member
	reply chan bool
}

func (m *member) URL() string { return "scripted" }
func (m *member) Announce(ctx context.Context, req tracker.AnnounceRequest) (*tracker.AnnounceResponse, error) {
	c := &call{m: m, reply: make(chan bool)}
	m.called <- c
	if <-c.reply {
		return &tracker.AnnounceResponse{}, nil
	}
	return nil, errors.New("scripted failure")
}

// runTier executes ops ([0 tid] begin, [1 tid ok] finish) on a real tracker.Tier and returns
// the position (in Tier.Trackers) of the member each begin contacted.
func runTier(in []int64) []int64 {
	n := int(in[0])
	called := make(chan *call)
	ms := make([]tracker.Tracker, n)
	for i := range ms {
		ms[i] = &member{id: i, called: called}
	}
	t := tracker.NewTier(ms)
	pos := map[*member]int{}
	for i, tr := range t.Trackers {
		pos[tr.(*member)] = i
	}
	inflight := map[int64]*call{}
	done := map[int64]chan struct{}{}
	var obs []int64
	ops := in[1:]
	for len(ops) > 0 {
		switch ops[0] {
		case 0:
			tid := ops[1]
			ops = ops[2:]
			d := make(chan struct{})
			done[tid] = d
			go func() {
				defer close(d)
				defer func() { recover() }()
				_, _ = t.Announce(context.Background(), tracker.AnnounceRequest{})
			}()
			select {
			case c := <-called:
				inflight[tid] = c
				obs = append(obs, int64(pos[c.m]))
			case <-d: // Announce returned without contacting anyone (panic)
				obs = append(obs, CrashMark)
			}
		case 1:
			tid, ok := ops[1], ops[2] != 0
			ops = ops[3:]
			if c := inflight[tid]; c != nil {
				c.reply <- ok
				<-done[tid]
				delete(inflight, tid)
			}
		default:
			return obs
		}
	}
	for _, c := range inflight {
		c.reply <- true
	}
	return obs
}

func genTier(r *rand.Rand, tier string) Case {
	n := 1 + r.Intn(5)
	if r.Intn(8) == 0 {
		n = 1 + r.Intn(12)
	}
	steps := 4 + r.Intn(30)
	if tier == "thorough" {
		steps = 4 + r.Intn(120)
	}
	in := []int64{int64(n)}
	var open []int64
	next := int64(1)
	pfail := []float64{0.2, 0.5, 0.8, 1.0}[r.Intn(4)]
	concurrent := r.Intn(3) == 0
	for i := 0; i < steps; i++ {
		if len(open) > 0 && (!concurrent || r.Intn(2) == 0 || len(open) >= 4) {
			k := r.Intn(len(open))
			tid := open[k]
			open = append(open[:k], open[k+1:]...)
			in = append(in, 1, tid, b2i(r.Float64() >= pfail))
		} else {
			in = append(in, 0, next)
			open = append(open, next)
			next++
		}
	}
	for _, tid := range open {
		in = append(in, 1, tid, b2i(r.Float64() >= pfail))
	}
	return Case{In: in, Obs: runTier(in)}
}

func init() {
	Register(1601, "tracker.Tier under scripted members (sequential and concurrent announces)", genTier)
	RegisterReplay(1601, runTier)
}

//go:build verif

package verifhook

import (
	"math/rand"
	"strconv"
	"time"

	"github.com/cenkalti/rain/v2/internal/resourcemanager"
)

type ramHarness struct {
	m        *resourcemanager.ResourceManager[int64]
	notifyC  chan int64
	in, obs  []int64
	limit    int64
	avail    int64
	pending  map[int64]int64 // id -> n
	live     map[int64]int64
	cancelCs map[int64]chan struct{}
}

func (h *ramHarness) stats() {
	st := h.m.Stats()
	h.obs = append(h.obs, st.AllocatedSize, int64(st.AllocatedObjects), int64(st.PendingKeys))
}

// pump lets the manager run: every Stats() is one loop iteration; notifications are recorded as ops
func (h *ramHarness) pump() {
	deadline := time.Now().Add(3 * time.Second)
	for k := 0; ; k++ {
		fits, mustCome := false, false
		for id, n := range h.pending {
			if n <= h.avail {
				fits = true
				// a request whose cancel channel is still open cannot be dropped: its grant will come, however
				// long the loaded machine takes to schedule the manager
				select {
				case <-h.cancelCs[id]:
				default:
					mustCome = true
				}
			}
		}
		if !fits || (k >= 60 && !mustCome) || time.Now().After(deadline) {
			return
		}
		_ = h.m.Stats()
		select {
		case id := <-h.notifyC:
			n := h.pending[id]
			delete(h.pending, id)
			h.live[id] = n
			h.avail -= n
			h.in = append(h.in, 4, id)
		case <-time.After(300 * time.Microsecond):
		}
	}
}

// settle records an observation point: the grants that happened before it, then the statistics.  The
// statistics are read twice with a look at the notification channel in between; only a stable pair is
// recorded, so a grant can never fall between "no notification seen" and the numbers that already include it.
func (h *ramHarness) settle() {
	for tries := 0; tries < 2000; tries++ {
		h.pump()
		s1 := h.m.Stats()
		select {
		case id := <-h.notifyC:
			n := h.pending[id]
			delete(h.pending, id)
			h.live[id] = n
			h.avail -= n
			h.in = append(h.in, 4, id)
			continue
		default:
		}
		s2 := h.m.Stats()
		if s1 == s2 {
			h.in = append(h.in, 5) // observation point: the manager is quiescent
			h.obs = append(h.obs, s2.AllocatedSize, int64(s2.AllocatedObjects), int64(s2.PendingKeys))
			return
		}
	}
	h.in = append(h.in, 5)
	h.stats()
}

func genRam(r *rand.Rand, tier string) Case {
	limit := pick(r, 0, 1, 4, 8, 16)
	h := &ramHarness{m: resourcemanager.New[int64](limit), notifyC: make(chan int64, 512), limit: limit, avail: limit,
		pending: map[int64]int64{}, live: map[int64]int64{}, cancelCs: map[int64]chan struct{}{}}
	defer h.m.Close()
	h.in = []int64{limit}
	next := int64(1)
	steps := 8 + r.Intn(30)
	for s := 0; s < steps; s++ {
		switch x := r.Intn(10); {
		case x < 5:
			id := next
			next++
			key := int64(r.Intn(3))
			n := pick(r, 1, 2, 4, 4, 8, 0)
			closed := r.Intn(12) == 0
			cc := make(chan struct{})
			if closed {
				close(cc)
			}
			h.cancelCs[id] = cc
			res := make(chan bool, 1)
			go func() { res <- h.m.Request(strconv.FormatInt(key, 10), id, n, h.notifyC, cc) }()
			out := int64(3) // stuck
			select {
			case ok := <-res:
				if ok {
					out = 1
					h.live[id] = n
					h.avail -= n
				} else if closed && h.avail >= n {
					out = 2 // not acquired although resources were available: the requester saw its cancellation
				} else {
					out = 0 // queued (a closed-cancel request may also have been dropped: it stays optional in the model)
				}
			case <-time.After(3 * time.Second): // generous: "stuck" must not be an artefact of a loaded machine
			}
			if out == 0 {
				h.pending[id] = n
			}
			h.in = append(h.in, 1, id, key, n, b2i(closed), out)
			if out == 3 {
				h.in = append(h.in, 5)
				h.stats()
				return Case{In: h.in, Obs: h.obs}
			}
		case x < 8:
			for id, n := range h.live {
				h.m.Release(n)
				delete(h.live, id)
				h.avail += n
				h.in = append(h.in, 2, id)
				break
			}
		default:
			for id := range h.pending {
				if cc := h.cancelCs[id]; cc != nil {
					select {
					case <-cc:
					default:
						close(cc)
						h.in = append(h.in, 3, id)
					}
				}
				break
			}
		}
		h.settle()
	}
	return Case{In: h.in, Obs: h.obs}
}

// queuedKeys is unknown to the harness (manager internals); a closed-cancel request that returns
// false is reported as "not acquired" unless it could not have been granted anyway
func (h *ramHarness) queuedKeys() map[int64]bool { return map[int64]bool{} }

func init() {
	Register(1701, "resourcemanager: request/notify/cancel/release sequences with Stats after every step", genRam)
}

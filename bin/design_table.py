#!/usr/bin/env python3
"""Rewrite section 10 of DESIGN.md (seeded changes vs checks) from seeded/RESULTS.md and seeded/*/meta.json."""
import json, re, os
V = '/verif'
rows = []
for l in open(V + '/seeded/RESULTS.md'):
    m = re.match(r'\| (C\d\d-\d+) \| (C\d\d) \| ([^|]*) \| ([^|]*) \|', l)
    if m:
        rows.append(m.groups())
def kinds_failing(detail):
    return detail.strip()
out = ['## 10. Seeded changes and the checks that catch them', '',
       'Produced by `bin/run_seeds.sh` (each change applied to `/repo`, the property\'s quick check run, the change undone)',
       'and `bin/design_table.py`. "caught with failing input" = exit 1 with a VIOLATION line whose replay is a concrete',
       'case; "caught (no-failing-input-found)" = a theorem or correspondence no longer checks (here: the harness no',
       'longer builds against the changed tree) and the search found no failing case.', '',
       '| seed | what the change does (from its meta.json) | outcome | first failing correspondence / note |', '|---|---|---|---|']
for sid, prop, outcome, detail in rows:
    mp = f'{V}/seeded/{sid}/meta.json'
    summ = ''
    if os.path.exists(mp):
        m = json.load(open(mp))
        summ = re.sub(r'\s+', ' ', m.get('summary', ''))[:170].replace('|', '/')
        if m.get('obsolete'):
            summ = 'OBSOLETE: ' + str(m['obsolete'])[:150]
    out.append(f'| {sid} | {summ} | {outcome.strip()} | {detail.strip()[:120]} |')
caught = sum(1 for r in rows if r[2].strip().startswith('caught'))
missed = [r[0] for r in rows if r[2].strip() == 'MISSED']
out += ['', f'Caught: {caught} of {len(rows)}. Missed: {", ".join(missed) if missed else "none"}.', '']
s = open(V + '/DESIGN.md').read()
i = s.find('## 10. Seeded changes and the checks that catch them')
if i >= 0:
    s = s[:i]
s = s.rstrip('\n') + '\n\n\n' + '\n'.join(out)
open(V + '/DESIGN.md', 'w').write(s)
print('rows', len(rows), 'caught', caught, 'missed', missed)

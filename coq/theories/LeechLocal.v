(* One peer's messages touch only that peer's record: whatever a peer sends (valid or not), the
   handler leaves every other peer's record exactly as it was -- it neither closes them nor
   changes their downloads -- and (core lemmas of LeechProofs) never stops the torrent.  New
   downloads for idle peers are started afterwards by [assign], never by the handler itself. *)
From RainV Require Import Lib Geometry PieceDl Leech LeechProofs.
From Coq Require Import ZifyBool.

Definition others_same (p : Z) (s s' : lst) : Prop := forall r, Z.to_nat r <> Z.to_nat p -> get_p s' r = get_p s r.

Lemma os_refl p s : others_same p s s. Proof. intros r _. reflexivity. Qed.
Lemma os_trans p a b c : others_same p a b -> others_same p b c -> others_same p a c.
Proof. intros H1 H2 r Hr. rewrite (H2 r Hr). apply H1. exact Hr. Qed.
Lemma os_upd p s f : others_same p s (upd_p s p f).
Proof.
  intros r Hr. unfold upd_p. destruct (p <? 0); [reflexivity|]. unfold get_p. cbn. rewrite get_upd_list.
  destruct (Nat.eqb (Z.to_nat r) (Z.to_nat p)) eqn:E; [apply Nat.eqb_eq in E; contradiction|reflexivity].
Qed.
Lemma os_peers p s s' : s_peers s' = s_peers s -> others_same p s s'.
Proof. intros E r _. unfold get_p. rewrite E. reflexivity. Qed.
Lemma os_do_request p s : others_same p s (do_request s p).
Proof. unfold do_request. destruct (q_dl _); [|apply os_refl]. destruct (request_blocks _ _). apply os_upd. Qed.
Lemma os_interest p s : others_same p s (upd_interest s p).
Proof. unfold upd_interest. destruct (Bool.eqb _ _); [apply os_refl|apply os_upd]. Qed.
Lemma os_close_t fixed p s : others_same p s (fst (close_t fixed s p)).
Proof. apply os_upd. Qed.

Ltac os_tac p :=
  repeat first
    [ apply os_refl | apply os_close_t | apply os_do_request | apply os_interest | apply os_upd
    | (apply os_peers; reflexivity)
    | (eapply os_trans; [|apply os_do_request])
    | (eapply os_trans; [|apply os_interest]) ].

Theorem peer_message_is_local fixed s code p a b c g bits :
  code <> 9 -> others_same p s (fst (dispatch fixed s code p a b c g bits)).
Proof.
  intros H9. unfold dispatch.
  destruct (code =? 1); [unfold h_have; destruct (_ || _); cbn [fst]; os_tac p|].
  destruct (code =? 2); [unfold h_bits; destruct (z2b g); cbn [fst]; os_tac p|].
  destruct (code =? 3); [unfold h_bits; cbn [fst]; os_tac p|].
  destruct (code =? 4); [unfold h_allowed_fast; destruct (_ || _); cbn [fst]; os_tac p|].
  destruct (code =? 5); [unfold h_unchoke; destruct (q_dl _) as [d|]; [destruct (l_af d)|]; cbn [fst]; os_tac p|].
  destruct (code =? 6).
  { unfold h_choke; destruct (q_dl _) as [d|]; [destruct (l_af d)|]; cbn [fst]; os_tac p.
    eapply os_trans; [apply os_upd|apply os_upd]. }
  destruct (code =? 7).
  { unfold h_reject. destruct (_ || _); [os_tac p|]. destruct (q_dl _) as [d|]; [|os_tac p]. destruct (negb _); [os_tac p|].
    destruct (rejected _ _ _) as [pd' [|]]; cbn [fst]; os_tac p. }
  destruct (code =? 8).
  { destruct (s_inflight s); [apply os_peers; reflexivity|]. unfold h_piece.
    destruct (q_closed _); [os_tac p|]. destruct (_ || _); [os_tac p|]. destruct (q_dl _) as [d|]; [|os_tac p].
    destruct (negb _); [os_tac p|]. destruct (got_nb _ _ _) as [pd' gg]. destruct gg; try solve [os_tac p].
    all: destruct (pd_finished pd'); cbn [fst];
      [apply (os_trans p _ (upd_p s p (fun q => set_dl q None))); [apply os_upd|apply os_peers; reflexivity]
      |destruct (_ || _); cbn [fst]; os_tac p]. }
  destruct (code =? 9) eqn:E9; [lia|].
  destruct (code =? 10); [unfold h_snub; destruct (q_dl _); [destruct (q_choking _)|]; os_tac p|].
  destruct (code =? 11); [os_tac p|].
  destruct (code =? 12); [unfold h_connect; destruct (q_present _); cbn [fst]; os_tac p|].
  destruct (code =? 13); [unfold h_ext; cbn [fst]; os_tac p|].
  apply os_refl.
Qed.

(* ... and whatever a peer sends, the torrent is not stopped and no piece is marked or unmarked *)
Theorem peer_message_keeps_torrent_running fixed s code p a b c g bits :
  code <> 9 -> let s' := fst (dispatch fixed s code p a b c g bits) in
  s_stopped s' = s_stopped s /\ s_done s' = s_done s /\ s_completed s' = s_completed s /\ s_banned s' = s_banned s.
Proof.
  intros H9. cbn zeta. unfold dispatch.
  assert (K : forall s', core s' = core s -> s_stopped s' = s_stopped s -> s_stopped s' = s_stopped s /\ s_done s' = s_done s /\ s_completed s' = s_completed s /\ s_banned s' = s_banned s).
  { intros s' Hc Hs. unfold core in Hc. inversion Hc. auto. }
  assert (Su : forall s0 p0 f, s_stopped (upd_p s0 p0 f) = s_stopped s0) by (intros; unfold upd_p; destruct (_ <? _); reflexivity).
  assert (Sr : forall s0 p0, s_stopped (do_request s0 p0) = s_stopped s0) by (intros; unfold do_request; destruct (q_dl _); [destruct (request_blocks _ _); apply Su|reflexivity]).
  assert (Si : forall s0 p0, s_stopped (upd_interest s0 p0) = s_stopped s0) by (intros; unfold upd_interest; destruct (Bool.eqb _ _); [reflexivity|apply Su]).
  assert (Sc : forall s0 p0, s_stopped (fst (close_t fixed s0 p0)) = s_stopped s0) by (intros; apply Su).
  destruct (code =? 1); [apply K; [apply core_h_have|unfold h_have; destruct (_ || _); cbn [fst]; rewrite ?Sc, ?Si, ?Su; reflexivity]|].
  destruct (code =? 2); [apply K; [apply core_h_bits|unfold h_bits; destruct (z2b g); cbn [fst]; rewrite ?Sc, ?Si, ?Su; reflexivity]|].
  destruct (code =? 3); [apply K; [apply core_h_bits|unfold h_bits; cbn [fst]; rewrite ?Sc, ?Si, ?Su; reflexivity]|].
  destruct (code =? 4); [apply K; [apply core_h_allowed_fast|unfold h_allowed_fast; destruct (_ || _); cbn [fst]; rewrite ?Sc, ?Su; reflexivity]|].
  destruct (code =? 5); [apply K; [apply core_h_unchoke|unfold h_unchoke; destruct (q_dl _) as [d|]; [destruct (l_af d)|]; cbn [fst]; rewrite ?Sr, ?Su; reflexivity]|].
  destruct (code =? 6); [apply K; [apply core_h_choke|unfold h_choke; destruct (q_dl _) as [d|]; [destruct (l_af d)|]; cbn [fst]; rewrite ?Su; reflexivity]|].
  destruct (code =? 7).
  { apply K; [apply core_h_reject|]. unfold h_reject. destruct (_ || _); [apply Sc|]. destruct (q_dl _) as [d|]; [|reflexivity].
    destruct (negb _); [reflexivity|]. destruct (rejected _ _ _) as [pd' [|]]; cbn [fst]; rewrite ?Sc, ?Su; reflexivity. }
  destruct (code =? 8).
  { destruct (s_inflight s); [cbn; auto|]. unfold h_piece.
    destruct (q_closed _); [auto|]. destruct (_ || _); [apply K; [apply core_close_t|apply Sc]|]. destruct (q_dl _) as [d|]; [|auto].
    destruct (negb _); [auto|]. destruct (got_nb _ _ _) as [pd' gg]. destruct gg; auto; try (apply K; [apply core_close_t|apply Sc]).
    all: destruct (pd_finished pd'); cbn [fst].
    all: try (pose proof (core_upd_p s p (fun q => set_dl q None)) as Hc; unfold core in Hc; inversion Hc; cbn; rewrite Su; auto).
    all: destruct (_ || _); cbn [fst]; (apply K; [rewrite ?core_do_request; apply core_upd_p|rewrite ?Sr, ?Su; reflexivity]). }
  destruct (code =? 9) eqn:E9; [lia|].
  destruct (code =? 10); [apply K; [apply core_h_snub|unfold h_snub; destruct (q_dl _); [destruct (q_choking _)|]; reflexivity]|].
  destruct (code =? 11); [apply K; [apply core_h_disconnect|apply Sc]|].
  destruct (code =? 12); [apply K; [apply core_h_connect|unfold h_connect; destruct (q_present _); cbn [fst]; rewrite ?Su; reflexivity]|].
  destruct (code =? 13); [apply K; [apply core_h_ext|unfold h_ext; cbn [fst]; apply Su]|].
  auto.
Qed.

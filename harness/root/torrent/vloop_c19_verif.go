//go:build verif

package torrent

import (
	"net"
	"strings"
	"time"

	"github.com/cenkalti/rain/v2/internal/peersource"
)

// Entry points and observations for property C19 (private torrents): every path of torrent_run.go
// by which peer addresses enter the torrent, and what identifies the client to others.

// NewAddrs delivers addresses as the loop does for addrsFromTrackers / addPeersCommandC / dhtPeersC.
func (v *VLoop) NewAddrs(addrs []*net.TCPAddr, source peersource.Source) {
	v.guard(func() {
		switch source {
		case peersource.Tracker:
			v.T.vCaseAddrsFromTrackers(addrs)
		case peersource.Manual:
			v.T.vCaseAddPeersCommandC(addrs)
		case peersource.DHT:
			v.T.vCaseDhtPeersC(addrs)
		default:
			panic("no loop case delivers addresses of this source")
		}
	})
}

// PumpTracker waits for the result of a tracker announce and handles it like the loop does.
// Returns the number of addresses, -1 when nothing arrived.
func (v *VLoop) PumpTracker(d time.Duration) int {
	timer := time.NewTimer(d)
	defer timer.Stop()
	select {
	case addrs := <-v.T.addrsFromTrackers:
		v.guard(func() { v.T.vCaseAddrsFromTrackers(addrs) })
		return len(addrs)
	case <-timer.C:
		return -1
	}
}

type VPrivState struct {
	BySource     [4]int // tracker, DHT, PEX, manual: addresses in the list + outgoing handshakes
	DHTAnnouncer bool
	DHTRequested bool // the torrent is waiting in the session's queue of DHT peer requests
	PEX          []bool
	PeerIDPriv   bool
	VersionPriv  bool
	MagnetErr    bool
}

func (v *VLoop) PrivState() VPrivState {
	t := v.T
	var s VPrivState
	for i, src := range []peersource.Source{peersource.Tracker, peersource.DHT, peersource.PEX, peersource.Manual} {
		s.BySource[i] = t.addrList.LenSource(src)
		for h := range t.outgoingHandshakers {
			if h.Source == src {
				s.BySource[i]++
			}
		}
		for pe := range t.outgoingPeers {
			if pe.Source == src {
				s.BySource[i]++
			}
		}
	}
	s.DHTAnnouncer = t.dhtAnnouncer != nil
	if t.session.dhtPeerRequests != nil {
		t.session.mPeerRequests.Lock()
		_, s.DHTRequested = t.session.dhtPeerRequests[t]
		t.session.mPeerRequests.Unlock()
	}
	for _, p := range v.Peers {
		s.PEX = append(s.PEX, p.Pe.PEX != nil && !p.Pe.Closed)
	}
	s.PeerIDPriv = strings.HasPrefix(string(t.peerID[:]), t.session.config.PrivatePeerIDPrefix)
	s.VersionPriv = t.getClientVersion() == t.session.config.PrivateExtensionHandshakeClientVersion
	_, err := t.Magnet()
	s.MagnetErr = err != nil
	return s
}

// AnnounceCmd issues the announce command (as the loop would on announceCommandC).
func (v *VLoop) AnnounceCmd() { v.guard(func() { v.T.vCaseAnnounceCommandC() }) }

// PeerIDString is the peer id the torrent announces and handshakes with.
func (v *VLoop) PeerIDString() string { return string(v.T.peerID[:]) }

(* C01 — download integrity: only hash-verified data reaches disk or is reported. *)
From RainV Require Import Lib Geometry SectionIO BlocksProofs PieceDl PieceDlProofs.

(* a fresh piece downloader satisfies the assembly invariant with an empty history *)
Theorem C01_new_downloader_invariant : forall blocks plen af fast, 0 <= plen -> DInv plen (pdl_new blocks plen af fast) [].
Proof. exact new_dinv. Qed.
Print Assumptions C01_new_downloader_invariant.

(* whatever (begin, data) a peer sends -- corrupt, duplicated, unrequested, out of range, reordered,
   truncated -- the block is either ignored (state unchanged) or it is exactly one of the piece's
   computed blocks, not received before, and is copied to exactly its own range: every earlier
   accepted block still reads back unchanged and bytes outside all accepted blocks are still zero *)
Theorem C01_block_acceptance : forall plen d hist begin data, ordered 0 (pd_blocks d) plen -> DInv plen d hist ->
  let '(d', g) := got_blk d begin data in
  match g with
  | GInvalid | GDuplicate => d' = d
  | GOk | GNotRequested =>
      DInv plen d' (hist ++ [(begin, data)]) /\ pd_blocks d' = pd_blocks d /\
      (exists blk, In blk (pd_blocks d) /\ bbeg blk = begin /\ blen blk = zlen data) /\ ~ In begin (pd_done d)
  end.
Proof. exact got_blk_inv. Qed.
Print Assumptions C01_block_acceptance.

(* when the downloader reports Done and every accepted block carried the true bytes of its range,
   the buffer handed to the writer is the piece itself (padding ranges stay zero) *)
Theorem C01_assembled_is_truth : forall plen d hist truth,
  ordered 0 (pd_blocks d) plen -> DInv plen d hist -> pd_finished d = true -> zlen truth = plen ->
  (forall k, 0 <= k < plen -> ~ covered (pd_blocks d) k -> nth (Z.to_nat k) truth 0 = 0) ->
  (forall b data, In (b, data) hist -> data = slice truth b (zlen data)) ->
  pd_buf d = truth.
Proof. exact assembled_is_truth. Qed.
Print Assumptions C01_assembled_is_truth.

(* the piece writer touches storage only with a buffer of the piece's length whose hash equals the
   recorded one, and then performs exactly the section write of C02; on mismatch storage is unchanged
   ([hash] is any function: no property of SHA-1 is assumed) *)
Theorem C01_written_is_verified : forall (hash : list Z -> Z) H plen st secs buf r,
  write_piece hash H plen st secs buf = (r, true) -> zlen buf = plen /\ hash buf = H /\ r = write_secs st secs buf.
Proof. exact written_is_verified. Qed.
Print Assumptions C01_written_is_verified.

Theorem C01_hash_mismatch_writes_nothing : forall (hash : list Z -> Z) H plen st secs buf r,
  write_piece hash H plen st secs buf = (r, false) -> r = Ok st.
Proof. exact hash_mismatch_writes_nothing. Qed.
Print Assumptions C01_hash_mismatch_writes_nothing.

(* ---- the event loop (Leech.v: message, write-result, snub and disconnect handlers) ---- *)
From RainV Require Import Leech LeechProofs.

(* for every event history -- any interleaving of peer messages with any field values, block
   deliveries (true or corrupt bytes, requested or not, duplicated, out of range), write results,
   snubs, disconnects and connects -- and every observed piece assignment (legal or not), in every
   reachable state:
   - every write to storage came from a buffer all of whose blocks were accepted with the true
     bytes, each block of the piece exactly once (with C01_assembled_is_truth: the buffer is the piece);
   - a piece is Done (= its bitfield bit, from which have/bitfield messages, stats and resume data
     are produced) only if it was verified at start or written that way;
   - at most one piece write is in flight;
   - a closed peer has no piece downloader *)
Theorem C01_session_integrity : forall fixed s0 s, init_ok s0 -> reach fixed s0 s ->
  (forall i g h, In (i, g, h) (s_written s) ->
     g = true /\ forallb snd h = true /\ covers (nth (Z.to_nat i) (s_blocks s0) []) h) /\
  (forall n, nth n (s_done s) false = true ->
     nth n (s_done s0) false = true \/ exists h, In (Z.of_nat n, true, h) (s_written s)) /\
  (forall n m, nth n (s_writing s) false = true -> nth m (s_writing s) false = true -> n = m) /\
  (forall r, q_closed (get_p s r) = true -> q_dl (get_p s r) = None).
Proof. exact session_integrity. Qed.
Print Assumptions C01_session_integrity.

(* the write result of a buffer that fails the hash check: nothing is written or marked Done, the
   source is closed and banned ... *)
Theorem C01_corrupt_source_dropped : forall fixed s src i p a b c g bits asg,
  s_inflight s = Some (src, i, false) -> q_present (get_p s src) = true -> 0 <= src ->
  let s' := fst (lstep fixed s [9; p; a; b; c; g] bits asg) in
  s_written s' = s_written s /\ s_done s' = s_done s /\ In src (s_banned s') /\ q_closed (get_p s' src) = true.
Proof. exact bad_buffer_step. Qed.
Print Assumptions C01_corrupt_source_dropped.

(* ... and stays closed through every later event (so, by the last clause above, never downloads again) *)
Theorem C01_closed_stays_closed : forall fixed s ev bits asg r, CP (get_p s r) -> q_closed (get_p s r) = true ->
  CP (get_p (fst (lstep fixed s ev bits asg)) r) /\ q_closed (get_p (fst (lstep fixed s ev bits asg)) r) = true.
Proof. exact closed_stays. Qed.
Print Assumptions C01_closed_stays_closed.

(* the states the correspondence check walks through (kind 101) are reachable states of this theorem *)
Theorem C01_codec_states_reachable : forall fixed np P s0 fuel l, reach fixed s0 (last_state fixed fuel np P s0 l).
Proof. intros. apply last_state_reach. apply reach_init. Qed.
Print Assumptions C01_codec_states_reachable.

(* hypothesis [blocks_nodup] of [init_ok] holds for what calculateBlocks produces *)
Theorem C01_blocks_have_distinct_begins : forall bs l bl, 0 < bs -> BlocksProofs.wf_secs l -> l <> [] ->
  calc_blocks true bs l = Ok bl -> NoDup (map bbeg bl).
Proof. exact calc_blocks_nodup. Qed.
Print Assumptions C01_blocks_have_distinct_begins.

(* the verifier (resume-time and on-demand hash check): a piece is marked only if every byte of it was
   read from disk and equals the content; a read that hits the end of a file fails the verification *)
Theorem C01_verifier_marks_only_good_pieces : forall np r bits, run_verifier (np :: r) = 0 :: bits ->
  forall i, nth i bits 0 = 1 ->
  exists s e, nth_error (firstn (Z.to_nat np) (ver_pairs r)) i = Some (s, e) /\ s = false /\ e = true.
Proof. exact verifier_marks_only_good_pieces. Qed.
Print Assumptions C01_verifier_marks_only_good_pieces.

(* piece writer + write-result gate over a disk that may refuse the write (files closed by a stop,
   I/O error): a piece is marked Done / reported only if its buffer had the recorded hash and the
   storage holds what was written from it; otherwise the storage is untouched (kind 104) *)
From RainV Require Import WriteGate.
Theorem C01_reported_piece_is_on_disk : forall (hash : list Z -> Z) H plen st secs buf d,
  let r := pw_run hash H plen st secs buf d in
  (marks_done r = true -> zlen buf = plen /\ hash buf = H /\ d = DiskOk /\ write_secs st secs buf = Ok (w_sto r)) /\
  (marks_done r = false -> w_sto r = st).
Proof. exact reported_piece_is_on_disk. Qed.
Print Assumptions C01_reported_piece_is_on_disk.

(* Dispatch table used by the extracted driver and by the vm_compute cross-check.
   kind = property*100 + sub-model.  [run] = what the model says the implementation must
   output on this input; [mon] = the property's monitor applied to the implementation's own
   observed output. *)
From RainV Require Import Lib Tier Geometry SectionIO Meta Paths Wire Stree AddrList Cache Tracker Announcer Picker PickerWs Edges Depth WriteGate Ram InfoDl Magnet Admission PieceDl Leech MetaSess Life Registry Resume Priv Mse Owner ConnLimit.

Definition run (kind : Z) (inp : list Z) : list Z :=
  match kind with
  | 101 => run_leech true inp
  | 102 => run_piecedl inp
  | 103 => run_verifier inp
  | 104 => run_stopwrite inp
  | 105 => run_webseed inp
  | 201 => run_new_pieces inp
  | 202 => run_calc_blocks inp
  | 203 => run_section_io inp
  | 204 => run_create_jobs inp
  | 205 => run_create_verify inp
  | 301 => run_cached_read inp
  | 302 => run_cache inp
  | 303 => run_admission inp
  | 304 => run_cache_split inp
  | 305 => run_cached_multi inp
  | 401 => run_life true inp
  | 501 => run_restart true inp
  | 502 => run_osync inp
  | 601 => run_accept inp
  | 602 => run_nesting inp
  | 603 => run_depth inp
  | 701 => run_accept_paths inp
  | 702 => run_open_path inp
  | 703 => run_tar_target inp
  | 704 => run_str_funcs inp
  | 901 => run_picker inp
  | 902 => tags_picker inp
  | 903 => run_picker_ws inp
  | 905 => run_edges inp
  | 904 => tags_picker_ws inp
  | 1101 => run_writer inp
  | 1102 => run_reader inp
  | 1103 => run_reader inp
  | 1104 => run_roundtrip inp
  | 1301 => run_idl inp
  | 1302 => run_magnet inp
  | 1303 => run_metasess true inp
  | 1401 => run_resume inp
  | 1402 => run_registry inp
  | 1501 => run_udp_packet inp
  | 1502 => run_http_query inp
  | 1503 => run_announcer inp
  | 1504 => run_stop_event inp
  | 1601 => run_tier true inp
  | 1602 => run_udp_parse inp
  | 1603 => run_http_parse inp
  | 1604 => run_net_nesting inp
  | 1605 => run_resp_limit inp
  | 1105 => run_wqueue inp
  | 1106 => run_net_nesting inp
  | 1201 => run_mse_honest inp
  | 1202 => run_mse_responder inp
  | 1203 => run_mse_initiator inp
  | 1204 => run_enc_policy inp
  | 1701 => run_ram inp
  | 1702 => run_connlimit inp
  | 1703 => run_ramloop inp
  | 1704 => run_webseed_cap inp
  | 1804 => run_bandial inp
  | 1901 => run_priv_flag inp
  | 2001 => run_owner inp
  | 2002 => run_api_stress inp
  | 1902 => run_priv true inp
  | 1903 => run_shared_tracker inp
  | 1801 => run_blocklist inp
  | 1802 => run_stree inp
  | 1803 => run_addrlist inp
  | _ => [-999]
  end.

Definition mon (kind : Z) (inp obs : list Z) : bool :=
  match kind with
  | 101 => list_eqb_Z (run_leech true inp) obs
  | 102 => list_eqb_Z (run_piecedl inp) obs
  | 103 => list_eqb_Z (run_verifier inp) obs
  | 104 => mon_stopwrite inp obs
  | 105 => list_eqb_Z (run_webseed inp) obs
  | 201 => mon_new_pieces inp obs
  | 202 => mon_calc_blocks inp obs
  | 203 => mon_section_io inp obs
  | 204 => mon_create_jobs inp obs
  | 205 => list_eqb_Z (run_create_verify inp) obs
  | 301 => mon_cached_read inp obs
  | 302 => mon_cache inp obs
  | 303 => mon_admission inp obs
  | 304 => list_eqb_Z (run_cache_split inp) obs
  | 305 => list_eqb_Z (run_cached_multi inp) obs
  | 401 => mon_life inp obs
  | 501 => mon_restart inp obs
  | 502 => list_eqb_Z (run_osync inp) obs
  | 601 => mon_accept inp obs
  | 602 => list_eqb_Z (run_nesting inp) obs
  | 603 => list_eqb_Z (run_depth inp) obs
  | 701 => mon_accept_paths inp obs
  | 702 => mon_open_path inp obs
  | 703 => mon_tar_target inp obs
  | 704 => list_eqb_Z (run_str_funcs inp) obs
  | 901 => list_eqb_Z (run_picker inp) obs
  | 903 => list_eqb_Z (run_picker_ws inp) obs
  | 905 => list_eqb_Z (run_edges inp) obs
  | 1101 => mon_writer inp obs
  | 1102 => mon_reader inp obs
  | 1103 => list_eqb_Z (run_reader inp) obs
  | 1104 => mon_roundtrip inp obs
  | 1301 => list_eqb_Z (run_idl inp) obs
  | 1302 => mon_magnet inp obs
  | 1303 => list_eqb_Z (run_metasess true inp) obs
  | 1401 => list_eqb_Z (run_resume inp) obs
  | 1402 => list_eqb_Z (run_registry inp) obs
  | 1501 => mon_udp_packet inp obs
  | 1502 => list_eqb_Z (run_http_query inp) obs
  | 1503 => mon_announcer inp obs
  | 1504 => list_eqb_Z (run_stop_event inp) obs
  | 1601 => mon_tier inp obs
  | 1602 => mon_udp_parse inp obs
  | 1603 => mon_http_parse inp obs
  | 1604 => list_eqb_Z (run_net_nesting inp) obs
  | 1605 => list_eqb_Z (run_resp_limit inp) obs
  | 1105 => list_eqb_Z (run_wqueue inp) obs
  | 1106 => list_eqb_Z (run_net_nesting inp) obs
  | 1201 => list_eqb_Z (run_mse_honest inp) obs
  | 1202 => list_eqb_Z (run_mse_responder inp) obs
  | 1203 => list_eqb_Z (run_mse_initiator inp) obs
  | 1204 => list_eqb_Z (run_enc_policy inp) obs
  | 1701 => mon_ram inp obs
  | 1702 => list_eqb_Z (run_connlimit inp) obs
  | 1703 => list_eqb_Z (run_ramloop inp) obs
  | 1704 => list_eqb_Z (run_webseed_cap inp) obs
  | 1801 => mon_blocklist inp obs
  | 1802 => mon_stree inp obs
  | 1803 => mon_addrlist inp obs
  | 1804 => list_eqb_Z (run_bandial inp) obs
  | 1901 => list_eqb_Z (run_priv_flag inp) obs
  | 2001 => mon_owner inp
  | 2002 => list_eqb_Z (run_api_stress inp) obs
  | 1902 => list_eqb_Z (run_priv true inp) obs
  | 1903 => list_eqb_Z (run_shared_tracker inp) obs
  | _ => false
  end.

(* one case = (kind, input, observed); result = (model output agrees, monitor) *)
Definition list_eqb := list_eqb_Z.

Definition check_case (c : Z * list Z * list Z) : bool * bool :=
  let '(k, i, o) := c in (list_eqb (run k i) o, mon k i o).

Definition mismatches (cs : list (Z * list Z * list Z)) : list (nat * bool * bool) :=
  let fix go (idx : nat) (l : list (Z * list Z * list Z)) :=
    match l with
    | [] => []
    | c :: r => let '(a, m) := check_case c in
                if a && m then go (S idx) r else (idx, a, m) :: go (S idx) r
    end in go O cs.

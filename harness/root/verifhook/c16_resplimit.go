//go:build verif

package verifhook

import (
	"context"
	"math/rand"
	"net/http"
	"net/http/httptest"
	"net/url"
	"time"

	"github.com/cenkalti/rain/v2/internal/tracker"
	"github.com/cenkalti/rain/v2/internal/tracker/httptracker"
)

// kind 1605: the configured limit on an HTTP tracker reply, for replies that declare their length
// and for replies that are streamed without one (chunked).  The body is a well-formed reply whose
// peers string is as long as needed; the client must not read (and act on) more than the limit.
// in  = [mode limit size npeers]   mode 0: Content-Length, 1: streamed in flushed chunks
// obs = [1 accepted | 0 refused ; number of peers accepted]

func runRespLimit(in []int64) []int64 {
	mode, limit, size := in[0], in[1], in[2]
	// d5:peers<n>:<6k bytes>e  with total length = size (size is chosen so that it works out)
	prefix := "d8:intervali1800e5:peers"
	n := int(size) - len(prefix) - 2
	digits := len(itoa(n))
	n -= digits
	if n < 0 || n%6 != 0 || len(itoa(n)) != digits {
		return []int64{-1}
	}
	body := []byte(prefix + itoa(n) + ":")
	for i := 0; i < n; i++ {
		body = append(body, byte(1+i%200))
	}
	body = append(body, 'e')
	srv := httptest.NewServer(http.HandlerFunc(func(w http.ResponseWriter, r *http.Request) {
		if mode == 0 {
			w.Header().Set("Content-Length", itoa(len(body)))
			_, _ = w.Write(body)
			return
		}
		fl, _ := w.(http.Flusher)
		for off := 0; off < len(body); off += 700 {
			end := off + 700
			if end > len(body) {
				end = len(body)
			}
			_, _ = w.Write(body[off:end])
			if fl != nil {
				fl.Flush()
			}
		}
	}))
	defer srv.Close()
	u, _ := url.Parse(srv.URL + "/a")
	tp := &http.Transport{}
	defer tp.CloseIdleConnections()
	tr := httptracker.New(srv.URL+"/a", u, 5*time.Second, tp, "verif-agent", limit)
	resp, err := tr.Announce(context.Background(), tracker.AnnounceRequest{})
	if err != nil {
		return []int64{0, 0}
	}
	return []int64{1, int64(len(resp.Peers))}
}

func genRespLimit(r *rand.Rand, tier string) Case {
	limit := int64(pick(r, 512, 1024, 2048, 4096))
	mode := int64(r.Intn(2))
	// sizes around the limit
	for {
		var k int
		switch r.Intn(4) {
		case 0:
			k = r.Intn(int(limit / 12)) // well below
		case 1:
			k = int(limit/6)*2 + r.Intn(100) // well above
		default:
			k = int(limit-30)/6 + r.Intn(9) - 4 // at the boundary
		}
		if k < 0 {
			k = 0
		}
		n := 6 * k
		size := int64(len("d8:intervali1800e5:peers") + len(itoa(n)) + 1 + n + 1)
		in := []int64{mode, limit, size, int64(k)}
		obs := Guard(func() []int64 { return runRespLimit(in) })
		if len(obs) == 1 && obs[0] == -1 {
			continue
		}
		return Case{In: in, Obs: obs}
	}
}

func init() {
	Register(1605, "HTTP tracker reply limit for declared and streamed bodies", genRespLimit)
	RegisterReplay(1605, runRespLimit)
}

//go:build verif

package verifhook

import (
	"bytes"
	"fmt"
	"math/rand"
	"net/http"
	"net/http/httptest"
	"os"
	"strings"
	"sync"
	"time"

	"github.com/cenkalti/rain/v2/torrent"
)

// Two session-level tracker scenarios through the public API with a scripted HTTP tracker.
//
// kind 1903 (C19): a public and a private torrent of one session announce to the SAME tracker URL;
// each must identify itself with its own user agent (the private one with the configured private agent).
//   in = [first]  (0: the public torrent is added first | 1: the private one)   obs = [agent of the public | of the private]
//   agent: 0 public agent | 1 private agent | -1 no announce seen
//
// kind 1504 (C15): the stopped event goes only to a tracker that accepted an announce of this run.
//   in = [mode]  (0: the tracker accepts | 1: it answers with a failure reason | 2: it answers 500)
//   obs = [started seen | stopped seen]

type recTracker struct {
	mu     sync.Mutex
	agents map[string]string   // info hash -> user agent of its first announce
	events map[string][]string // info hash -> events
	mode   int64
	srv    *httptest.Server
}

func newRecTracker(mode int64) *recTracker {
	t := &recTracker{agents: map[string]string{}, events: map[string][]string{}, mode: mode}
	t.srv = httptest.NewServer(http.HandlerFunc(func(w http.ResponseWriter, r *http.Request) {
		q := r.URL.Query()
		ih := fmt.Sprintf("%x", q.Get("info_hash"))
		t.mu.Lock()
		if _, ok := t.agents[ih]; !ok {
			t.agents[ih] = r.Header.Get("User-Agent")
		}
		t.events[ih] = append(t.events[ih], q.Get("event"))
		t.mu.Unlock()
		switch t.mode {
		case 1:
			_, _ = w.Write([]byte("d14:failure reason4:nopee"))
		case 2:
			w.WriteHeader(500)
		default:
			_, _ = w.Write([]byte("d8:intervali1800e5:peers0:e"))
		}
	}))
	return t
}

func (t *recTracker) wait(ih string, pred func(agent string, evs []string) bool, d time.Duration) bool {
	deadline := time.Now().Add(d)
	for time.Now().Before(deadline) {
		t.mu.Lock()
		ok := pred(t.agents[ih], t.events[ih])
		t.mu.Unlock()
		if ok {
			return true
		}
		time.Sleep(10 * time.Millisecond)
	}
	return false
}

func trackerSession(r *rand.Rand, tune func(*torrent.Config)) (*torrent.Session, string, error) {
	dir, err := os.MkdirTemp("/verif/.work", "trk")
	if err != nil {
		return nil, "", err
	}
	cfg := torrent.DefaultConfig
	cfg.Database = dir + "/s.db"
	cfg.DataDir = dir + "/data"
	cfg.DataDirIncludesTorrentID = true
	cfg.DHTEnabled = false
	cfg.RPCEnabled = false
	cfg.PEXEnabled = false
	cfg.Host = "127.0.0.1"
	base := 2000 + r.Intn(7800)
	cfg.PortBegin, cfg.PortEnd = uint16(base), uint16(base+10)
	cfg.TrackerStopTimeout = 2 * time.Second
	if tune != nil {
		tune(&cfg)
	}
	s, err := torrent.NewSession(cfg)
	if err != nil {
		os.RemoveAll(dir)
		return nil, "", err
	}
	return s, dir, nil
}

func genSharedTracker(r *rand.Rand, tier string) Case {
	first := int64(r.Intn(2))
	in := []int64{first}
	const priv = "PrivateClient/9.9"
	s, dir, err := trackerSession(r, func(c *torrent.Config) { c.TrackerHTTPPrivateUserAgent = priv })
	if err != nil {
		return Case{In: in, Obs: []int64{-710}}
	}
	defer os.RemoveAll(dir)
	defer s.Close()
	tr := newRecTracker(0)
	defer tr.srv.Close()
	url := tr.srv.URL + "/announce"
	mk := func(k int, private int64) []byte {
		l := vLayout{PL: 16384, Lens: []int64{int64(30000 + k)}, Pads: []bool{false}, Name: fmt.Sprintf("q%d", k), Total: int64(30000 + k)}
		return torrent.BuildTorrentFileWithTrackers(l.InfoBytes(l.Content(int64(k)+r.Int63n(1000)), private), nil, [][]string{{url}})
	}
	files := [2][]byte{mk(0, -1), mk(1, 1)} // public, private
	order := []int{0, 1}
	if first == 1 {
		order = []int{1, 0}
	}
	agent := [2]int64{-1, -1}
	for _, k := range order {
		t, err := s.AddTorrent(bytes.NewReader(files[k]), nil)
		if err != nil {
			return Case{In: in, Obs: []int64{-711}, Note: err.Error()}
		}
		ihb := t.InfoHash()
		ih := fmt.Sprintf("%x", string(ihb[:]))
		if tr.wait(ih, func(a string, evs []string) bool { return len(evs) > 0 }, 15*time.Second) {
			tr.mu.Lock()
			a := tr.agents[ih]
			tr.mu.Unlock()
			if strings.HasPrefix(a, priv) {
				agent[k] = 1
			} else {
				agent[k] = 0
			}
		}
	}
	return Case{In: in, Obs: []int64{agent[0], agent[1]}}
}

func genStopEvent(r *rand.Rand, tier string) Case {
	mode := int64(r.Intn(3))
	in := []int64{mode}
	s, dir, err := trackerSession(r, nil)
	if err != nil {
		return Case{In: in, Obs: []int64{-710}}
	}
	defer os.RemoveAll(dir)
	defer s.Close()
	tr := newRecTracker(mode)
	defer tr.srv.Close()
	l := vLayout{PL: 16384, Lens: []int64{31000}, Pads: []bool{false}, Name: "st", Total: 31000}
	file := torrent.BuildTorrentFileWithTrackers(l.InfoBytes(l.Content(r.Int63n(1000)), -1), nil, [][]string{{tr.srv.URL + "/announce"}})
	t, err := s.AddTorrent(bytes.NewReader(file), nil)
	if err != nil {
		return Case{In: in, Obs: []int64{-711}, Note: err.Error()}
	}
	ihb := t.InfoHash()
	ih := fmt.Sprintf("%x", string(ihb[:]))
	started := tr.wait(ih, func(a string, evs []string) bool { return len(evs) > 0 }, 15*time.Second)
	// wait until the announcer has taken the reply (its status leaves Contacting), not for a fixed time
	for dl := time.Now().Add(10 * time.Second); time.Now().Before(dl); time.Sleep(5 * time.Millisecond) {
		trs := t.Trackers()
		if len(trs) > 0 && (trs[0].Status == torrent.Working || trs[0].Status == torrent.NotWorking) {
			break
		}
	}
	_ = t.Stop()
	deadline := time.Now().Add(10 * time.Second)
	for time.Now().Before(deadline) && t.Stats().Status.String() != "Stopped" {
		time.Sleep(10 * time.Millisecond)
	}
	time.Sleep(200 * time.Millisecond)
	stopped := false
	tr.mu.Lock()
	for _, e := range tr.events[ih] {
		if e == "stopped" {
			stopped = true
		}
	}
	tr.mu.Unlock()
	return Case{In: in, Obs: []int64{b2i(started), b2i(stopped)}, Note: t.Stats().Status.String()}
}

func init() {
	Register(1903, "a public and a private torrent announcing to the same tracker URL: user agent per torrent", genSharedTracker)
	Register(1504, "the stopped event goes only to a tracker that accepted an announce", genStopEvent)
}

(* C08 — untrusted peer input never crashes the client or exceeds message bounds. *)
From RainV Require Import Lib Bencode Wire ReaderBound Geometry PieceDl Leech LeechProofs LeechLocal MetaSess MetaSessProofs.
From RainV Require Meta MetaProofs.

(* for every byte stream after the handshake -- malformed lengths, unknown ids, truncated or
   oversized messages -- every message the reader delivers respects the bounds: a bitfield has at
   most maxMsgSize bytes, a piece message at most 16 KiB of data, a request asks for at most 16 KiB
   (the length prefix is compared with maxMsgSize before anything of the message is read) *)
Theorem C08_reader_delivers_only_bounded_messages : forall maxmsg s, Forall (rwf maxmsg) (fst (parse_all maxmsg s)).
Proof. exact parse_all_wf. Qed.
Print Assumptions C08_reader_delivers_only_bounded_messages.

(* whatever a peer sends to a downloading or seeding torrent -- any message kind with any field
   values, in any order -- the handler changes only that peer's record: every other peer keeps its
   connection, its download and its protocol state ... *)
Theorem C08_peer_message_touches_only_that_peer : forall fixed s code p a b c g bits,
  code <> 9 -> others_same p s (fst (dispatch fixed s code p a b c g bits)).
Proof. exact peer_message_is_local. Qed.
Print Assumptions C08_peer_message_touches_only_that_peer.

(* ... and the torrent is neither stopped nor completed nor are pieces marked or sources banned by it *)
Theorem C08_peer_message_keeps_torrent_running : forall fixed s code p a b c g bits,
  code <> 9 -> let s' := fst (dispatch fixed s code p a b c g bits) in
  s_stopped s' = s_stopped s /\ s_done s' = s_done s /\ s_completed s' = s_completed s /\ s_banned s' = s_banned s.
Proof. exact peer_message_keeps_torrent_running. Qed.
Print Assumptions C08_peer_message_keeps_torrent_running.

(* while the metadata is unknown: metadata announced above the configured maximum (or not above 0)
   is never given a buffer, whatever the peers send *)
Theorem C08_metadata_buffer_capped : forall truesize mx par q np P s, mreach (minit truesize mx par q np P) s ->
  forall p d, m_idl (mget s p) = Some d -> 0 < d_size d <= mx.
Proof. intros truesize mx par q np P s H. apply (adoption_sound truesize mx par q np P s H). Qed.
Print Assumptions C08_metadata_buffer_capped.

(* bencode from a peer is refused before it is decoded when it is nested deeper than 64 levels: the
   recursive decoder's depth is bounded for every extension message that is decoded at all *)
Theorem C08_decoded_nesting_bounded : forall n t, Meta.run_net_nesting [n; t] = [1] -> Meta.nesting_levels 0 n <= Meta.max_nesting.
Proof. exact MetaProofs.net_nesting_bounded. Qed.
Print Assumptions C08_decoded_nesting_bounded.

From Coq Require Extraction ExtrOcamlBasic.
From RainV Require Import Lib Entry.
Extraction Language OCaml.
Extraction "model.ml" run mon Z.add Z.mul Z.opp Z.abs Z.div_eucl.

(* Tracker codecs: BEP 15 UDP announce packet (request.go/messages.go), UDP announce response
   parsing (udptracker.go), compact peer lists (compact.go), HTTP announce query and response
   interpretation (httptracker.go).  Definitions only. *)
From RainV Require Import Lib Bencode Wire.

Definition two64 : Z := 18446744073709551616.
Definition be64 (x : Z) : list Z :=
  let u := x mod two64 in be32 (u / 4294967296) ++ be32 (u mod 4294967296).

Fixpoint chunks255 (fuel : nat) (s : list Z) : list Z :=
  match fuel with
  | O => []
  | S f => match s with
           | [] => []
           | _ => let c := firstn 255 s in 2 :: zlen c :: c ++ chunks255 f (skipn 255 s)
           end
  end.

Record areq := { a_ih : list Z; a_pid : list Z; a_dl : Z; a_left : Z; a_ul : Z; a_event : Z;
                 a_numwant : Z; a_port : Z }.

Definition pid_key (pid : list Z) : Z :=
  match skipn 16 pid with [a; b; c; d] => rd_be32 a b c d | _ => 0 end.

(* [fixed = false]: pinned code writes the zero Key over PeerID[16:20];
   [fixed = true]: after the "fix:" commit (D6) the key is read from the peer id *)
Definition udp_announce (fixed : bool) (connid txid : Z) (r : areq) (urldata : list Z) : list Z :=
  let pid' := if fixed then a_pid r else firstn 16 (a_pid r) ++ [0; 0; 0; 0] in
  let key := if fixed then pid_key (a_pid r) else 0 in
  be64 connid ++ be32 1 ++ be32 (txid mod two32) ++ a_ih r ++ pid'
  ++ be64 (a_dl r) ++ be64 (a_left r) ++ be64 (a_ul r) ++ be32 (a_event r mod two32) ++ be32 0 ++ be32 key
  ++ be32 (a_numwant r mod two32) ++ be16 (a_port r mod 65536) ++ be16 0
  ++ chunks255 (S (length urldata)) urldata.

(* compact peers: 6 bytes each *)
Fixpoint compact_peers (fuel : nat) (b : list Z) : list (Z * Z) :=
  match fuel with
  | O => []
  | S f => match b with
           | a :: b1 :: c :: d :: p1 :: p2 :: r => (rd_be32 a b1 c d, p1 * 256 + p2) :: compact_peers f r
           | _ => []
           end
  end.
Definition decode_compact (b : list Z) : option (list (Z * Z)) :=
  if zlen b mod 6 =? 0 then Some (compact_peers (length b) b) else None.

Definition s32 (u : Z) : Z := if u >=? 2147483648 then u - 4294967296 else u.

(* parseAnnounceResponse: header (action, txid), interval, leechers, seeders, peers *)
Definition parse_udp_announce (d : list Z) : option (Z * Z * Z * list (Z * Z)) :=
  match d with
  | a1 :: a2 :: a3 :: a4 :: _ :: _ :: _ :: _ :: i1 :: i2 :: i3 :: i4 :: l1 :: l2 :: l3 :: l4 :: s1 :: s2 :: s3 :: s4 :: rest =>
      if rd_be32 a1 a2 a3 a4 =? 1 then
        match decode_compact rest with
        | Some ps => Some (s32 (rd_be32 i1 i2 i3 i4), s32 (rd_be32 l1 l2 l3 l4), s32 (rd_be32 s1 s2 s3 s4), ps)
        | None => None
        end
      else None
  | _ => None
  end.

(* ---- HTTP announce query ---- *)
Definition hexd (n : Z) : Z := if n <? 10 then 48 + n else 87 + n.
Definition pct (b : Z) : list Z := [37; hexd (b / 16); hexd (b mod 16)].
Definition hex2 (b : Z) : list Z := [hexd (b / 16); hexd (b mod 16)].
Definition str (s : list Z) := s.
Definition event_name (e : Z) : list Z :=
  match e with
  | 1 => [99;111;109;112;108;101;116;101;100]      (* completed *)
  | 2 => [115;116;97;114;116;101;100]               (* started *)
  | 3 => [115;116;111;112;112;101;100]              (* stopped *)
  | _ => []
  end.

(* bytes of "info_hash=...&key=..." as the server sees it in the raw query *)
Definition http_query (r : areq) (trackerid : list Z) : list Z :=
  [105;110;102;111;95;104;97;115;104;61] ++ flat_map pct (a_ih r)
  ++ [38;112;101;101;114;95;105;100;61] ++ flat_map pct (a_pid r)
  ++ [38;112;111;114;116;61] ++ bytes_of_Z (a_port r)
  ++ [38;117;112;108;111;97;100;101;100;61] ++ bytes_of_Z (a_ul r)
  ++ [38;100;111;119;110;108;111;97;100;101;100;61] ++ bytes_of_Z (a_dl r)
  ++ [38;108;101;102;116;61] ++ bytes_of_Z (a_left r)
  ++ [38;99;111;109;112;97;99;116;61;49] ++ [38;110;111;95;112;101;101;114;95;105;100;61;49]
  ++ [38;110;117;109;119;97;110;116;61] ++ bytes_of_Z (a_numwant r)
  ++ (if a_event r =? 0 then [] else [38;101;118;101;110;116;61] ++ event_name (a_event r))
  ++ (match trackerid with [] => [] | _ => [38;116;114;97;99;107;101;114;105;100;61] ++ trackerid end)
  ++ [38;107;101;121;61] ++ flat_map hex2 (skipn 16 (a_pid r)).

(* ---- HTTP announce response interpretation (canonical bencoded dictionary) ---- *)
Definition k_failure := [102;97;105;108;117;114;101;32;114;101;97;115;111;110].
Definition k_retry := [114;101;116;114;121;32;105;110].
Definition k_interval := [105;110;116;101;114;118;97;108].
Definition k_min_interval := [109;105;110;32;105;110;116;101;114;118;97;108].
Definition k_peers := [112;101;101;114;115].
Definition k_extip := [101;120;116;101;114;110;97;108;32;105;112].
Definition k_ip := [105;112].
Definition k_port := [112;111;114;116].

Definition in_i32 (z : Z) : bool := (-2147483648 <=? z) && (z <=? 2147483647).

Inductive http_res :=
| HDecodeErr
| HFailure (retry_minutes : Z)
| HOk (interval mininterval : Z) (npeers : Z) (peers : list (Z * Z)).

Definition get_i32 (k : list Z) (d : list (list Z * bval)) : option Z :=
  match dict_get k d with
  | None => Some 0
  | Some (BInt z) => (* zeebo stores an int64 into an int32 field by truncation; beyond int64 is a decode error *)
      if (-9223372036854775808 <=? z) && (z <=? 9223372036854775807)
      then Some ((z + 2147483648) mod 4294967296 - 2147483648) else None
  | Some _ => None
  end.

(* strconv.Atoi of an optional-sign decimal string; any error gives 0 *)
Definition atoi (s : list Z) : Z :=
  match s with
  | 45 :: r => match uint_of_bytes r with (Decimal.Nil, _) => 0 | (u, []) => - Z.of_uint u | _ => 0 end
  | 43 :: r => match uint_of_bytes r with (Decimal.Nil, _) => 0 | (u, []) => Z.of_uint u | _ => 0 end
  | _ => match uint_of_bytes s with (Decimal.Nil, _) => 0 | (u, []) => Z.of_uint u | _ => 0 end
  end.

Definition http_response (body : list Z) : http_res :=
  match decode body with
  | Some (BDict d, []) =>
      match get_str k_failure d, get_str k_retry d, get_i32 k_interval d, get_i32 k_min_interval d with
      | Some fr, Some ri, Some iv, Some mi =>
          match fr with
          | _ :: _ => HFailure (atoi ri)
          | [] =>
              match dict_get k_peers d with
              | None => HOk iv mi 0 []
              | Some (BStr b) => match decode_compact b with
                                 | Some ps => HOk iv mi (zlen ps) ps
                                 | None => HDecodeErr
                                 end
              | Some _ => HDecodeErr       (* dictionary model: not part of this model *)
              end
          end
      | _, _, _, _ => HDecodeErr
      end
  | _ => HDecodeErr
  end.

(* ---- case codecs ----
   kind 1501: in = [connid; txid; dl; left; ul; event; numwant; port; ih(20); pid(20); nurl; url...]  out = packet bytes
   kind 1502: in = [dl; left; ul; event; numwant; port; ih(20); pid(20); ntid; tid...]  out = raw query bytes
   kind 1602: in = datagram bytes  out = [0] | [1; interval; leechers; seeders; npeers; (ip port)*]
   kind 1603: in = body bytes  out = [0] | [2; retry] | [1; interval; mininterval; npeers; (ip port)*] *)
Definition rd_areq (l : list Z) : option (areq * list Z) :=
  match l with
  | dl :: lft :: ul :: ev :: nw :: port :: r =>
      match rdn 20 r with
      | Some (ih, r1) => match rdn 20 r1 with
                         | Some (pid, r2) => Some ({| a_ih := ih; a_pid := pid; a_dl := dl; a_left := lft; a_ul := ul;
                                                      a_event := ev; a_numwant := nw; a_port := port |}, r2)
                         | None => None end
      | None => None end
  | _ => None
  end.

Definition run_udp_packet (inp : list Z) : list Z :=
  match inp with
  | connid :: txid :: r => match rd_areq r with
                           | Some (rq, r2) => match rdlist r2 with
                                              | Some (url, _) => udp_announce true connid txid rq url
                                              | None => [-779] end
                           | None => [-779] end
  | _ => [-779]
  end.

(* monitor: BEP 15 field positions carry info-hash, the full peer id, counters, event, port *)
Definition mon_udp_packet (inp obs : list Z) : bool :=
  match inp with
  | connid :: txid :: r =>
      match rd_areq r with
      | Some (rq, _) =>
          list_eqb_Z (firstn 20 (skipn 16 obs)) (a_ih rq) &&
          list_eqb_Z (firstn 20 (skipn 36 obs)) (a_pid rq) &&
          list_eqb_Z (firstn 8 (skipn 56 obs)) (be64 (a_dl rq)) &&
          list_eqb_Z (firstn 8 (skipn 64 obs)) (be64 (a_left rq)) &&
          list_eqb_Z (firstn 8 (skipn 72 obs)) (be64 (a_ul rq)) &&
          list_eqb_Z (firstn 4 (skipn 80 obs)) (be32 (a_event rq mod two32)) &&
          list_eqb_Z (firstn 2 (skipn 96 obs)) (be16 (a_port rq mod 65536)) &&
          list_eqb_Z (firstn 4 (skipn 8 obs)) (be32 1) &&
          list_eqb_Z (firstn 4 (skipn 12 obs)) (be32 (txid mod two32))
      | None => false
      end
  | _ => false
  end.

Definition run_http_query (inp : list Z) : list Z :=
  match rd_areq inp with
  | Some (rq, r2) => match rdlist r2 with Some (tid, _) => http_query rq tid | None => [-779] end
  | None => [-779]
  end.

Definition enc_peers (ps : list (Z * Z)) : list Z := flat_map (fun p => [fst p; snd p]) ps.

Definition run_udp_parse (inp : list Z) : list Z :=
  match parse_udp_announce inp with
  | Some (i, l, s, ps) => 1 :: i :: l :: s :: zlen ps :: enc_peers ps
  | None => [0]
  end.

Definition run_http_parse (inp : list Z) : list Z :=
  match http_response inp with
  | HDecodeErr => [0]
  | HFailure r => [2; r]
  | HOk i m n ps => 1 :: i :: m :: n :: enc_peers ps
  end.

(* monitor for replies: either an error or well-formed peers (IPv4 as uint32, port uint16) *)
Fixpoint peers_wf (l : list Z) : bool :=
  match l with
  | ip :: port :: r => (0 <=? ip) && (ip <? two32) && (0 <=? port) && (port <? 65536) && peers_wf r
  | [] => true
  | _ => false
  end.
Definition mon_udp_parse (inp obs : list Z) : bool :=
  match obs with
  | [0] => true
  | 1 :: _ :: _ :: _ :: n :: ps => peers_wf ps && (zlen ps =? 2 * n)
  | _ => false
  end.
Definition mon_http_parse (inp obs : list Z) : bool :=
  match obs with
  | [0] => true
  | [2; _] => true
  | 1 :: _ :: _ :: n :: ps => peers_wf ps && (zlen ps =? 2 * n)
  | _ => false
  end.

(* ---- the configured limit on an HTTP tracker reply (httptracker.Announce, kind 1605) ----
   declared = Content-Length header (None: streamed); the body is read through a LimitReader *)
Definition read_reply (limit : Z) (declared : option Z) (stream : list Z) : option (list Z) :=
  match declared with
  | Some n => if n >? limit then None else Some (firstn (Z.to_nat limit) stream)
  | None => Some (firstn (Z.to_nat limit) stream)
  end.

(* in = [mode limit size npeers]: a well-formed reply of [size] bytes carrying npeers compact peers;
   a reply cut short does not decode *)
Definition run_resp_limit (inp : list Z) : list Z :=
  match inp with
  | [mode; limit; size; npeers] =>
      match read_reply limit (if mode =? 0 then Some size else None) (repeat 0 (Z.to_nat size)) with
      | Some got => if zlen got =? size then [1; npeers] else [0; 0]
      | None => [0; 0]
      end
  | _ => [-779]
  end.

(* Proofs about NewPieces: for every well-formed info the loop terminates without panicking and
   the sections of the pieces, in order, chain through the concatenated files gap-free and
   overlap-free; piece lengths are PL except the last. *)
From RainV Require Import Lib Geometry.
From Coq Require Import ZifyBool.

Record wf_info (files : list file) (PL : Z) (n : nat) (L : Z) : Prop := {
  wf_files : files <> [];
  wf_nonneg : Forall (fun f => 0 <= flen f) files;
  wf_pl : 0 < PL;
  wf_n : (0 < n)%nat;
  wf_lo : PL * (Z.of_nat n - 1) < L;
  wf_hi : L <= PL * Z.of_nat n;
  wf_sum : L = sum_flen files
}.

Lemma prefix_sum_nil k : prefix_sum [] k = 0.
Proof. destruct k; reflexivity. Qed.

Lemma prefix_sum_S fs : forall k f, nth_error fs k = Some f ->
  prefix_sum fs (S k) = prefix_sum fs k + flen f.
Proof.
  induction fs as [|g r IH]; intros k f H; [destruct k; discriminate|].
  destruct k as [|k]; cbn [nth_error] in H.
  - inversion H; subst. cbn [prefix_sum]. destruct r; cbn [prefix_sum]; lia.
  - change (prefix_sum (g :: r) (S (S k))) with (flen g + prefix_sum r (S k)).
    rewrite (IH k f H). cbn [prefix_sum]. lia.
Qed.

Lemma prefix_sum_all fs : forall k, (length fs <= k)%nat -> prefix_sum fs k = sum_flen fs.
Proof.
  induction fs as [|g r IH]; intros k H; [rewrite prefix_sum_nil; reflexivity|].
  destruct k as [|k]; cbn [length] in H; [lia|]. cbn [prefix_sum sum_flen fold_right].
  f_equal. apply IH. lia.
Qed.

Lemma prefix_sum_le fs : Forall (fun f => 0 <= flen f) fs ->
  forall k, prefix_sum fs k <= sum_flen fs.
Proof.
  induction 1 as [|g r Hg Hr IH]; intros k; [rewrite prefix_sum_nil; cbn; lia|].
  destruct k as [|k]; cbn [prefix_sum sum_flen fold_right].
  - assert (0 <= sum_flen r) by (specialize (IH O); destruct r; cbn [prefix_sum] in IH; lia).
    unfold sum_flen in *. lia.
  - specialize (IH k). unfold sum_flen in *. lia.
Qed.

Lemma chain_ok_app fs : forall x y a,
  chain_ok fs a (x ++ y) = match chain_ok fs a x with Some m => chain_ok fs m y | None => None end.
Proof.
  induction x as [|s r IH]; intros y a; cbn [app chain_ok]; [reflexivity|].
  destruct (sec_ok fs a s); [apply IH|reflexivity].
Qed.

Lemma sum_slen_app x y : sum_slen (x ++ y) = sum_slen x + sum_slen y.
Proof. unfold sum_slen. induction x as [|s r IH]; cbn [app fold_right]; lia. Qed.

Section WF.
Variable files : list file.
Variable PL : Z.
Variable n : nat.
Variable L : Z.
Hypothesis WF : wf_info files PL n L.

Record CurInv (s : fcur) : Prop := {
  ci_file : exists f, nth_error files (fidx s) = Some f /\ flength s = flen f /\ fpadc s = fpad f;
  ci_off : 0 <= foff s <= flength s;
  ci_tot : prefix_sum files (fidx s) + foff s = total s
}.

Lemma cur_total_le s : CurInv s -> total s + (flength s - foff s) <= L.
Proof.
  intros [(f & Hn & Hl & _) Ho Ht].
  pose proof (prefix_sum_S files _ _ Hn) as HS.
  pose proof (prefix_sum_le files (wf_nonneg _ _ _ _ WF) (S (fidx s))) as Hle.
  rewrite (wf_sum _ _ _ _ WF). lia.
Qed.

Lemma next_file_ok s : CurInv s -> foff s = flength s -> total s < L ->
  exists s2, next_file files s = Ok s2 /\ CurInv s2 /\ total s2 = total s /\ fidx s2 = S (fidx s).
Proof.
  intros [(f & Hn & Hl & Hp) Ho Ht] Hend Hlt. unfold next_file.
  pose proof (prefix_sum_S files _ _ Hn) as HS.
  destruct (nth_error files (S (fidx s))) as [g|] eqn:E.
  - eexists; split; [reflexivity|]. split; [|split; reflexivity].
    assert (Hg : 0 <= flen g).
    { pose proof (wf_nonneg _ _ _ _ WF) as Hnn. rewrite Forall_forall in Hnn.
      apply Hnn. eapply nth_error_In; eauto. }
    constructor; cbn [fidx flength foff fpadc total].
    + exists g; auto.
    + lia.
    + lia.
  - exfalso. apply nth_error_None in E.
    rewrite (prefix_sum_all files (S (fidx s)) E) in HS.
    rewrite (wf_sum _ _ _ _ WF) in Hlt. lia.
Qed.

Lemma sec_ok_cur s m : CurInv s -> 0 <= m <= flength s - foff s ->
  sec_ok files (total s) {| sfile := fidx s; soff := foff s; slen := m; spad := fpadc s |} = true.
Proof.
  intros [(f & Hn & Hl & Hp) Ho Ht] Hm. unfold sec_ok. cbn [sfile soff slen spad].
  rewrite Hn, Hp. rewrite eqb_reflx. lia.
Qed.

Lemma inner_ok : forall fuel s left secs plen,
  CurInv s -> 0 <= left -> (fuel >= length files - fidx s + 1)%nat ->
  exists secs2 s',
    inner files L fuel s left secs plen = Ok (secs ++ secs2, plen + sum_slen secs2, s') /\
    CurInv s' /\ chain_ok files (total s) secs2 = Some (total s') /\
    sum_slen secs2 = total s' - total s /\
    (total s' - total s = left \/ (total s' = L /\ total s' - total s <= left)).
Proof.
  induction fuel as [|f IH]; intros s left secs plen HI Hl Hf; [lia|].
  cbn [inner]. destruct (left >? 0) eqn:El.
  2:{ exists [], s. rewrite app_nil_r. cbn [sum_slen fold_right chain_ok].
      rewrite Z.add_0_r. split; [reflexivity|]. split; [assumption|]. split; [reflexivity|].
      split; [lia|]. left; lia. }
  set (m := Z.min left (flength s - foff s)).
  pose proof (ci_off s HI) as Ho.
  assert (Hm : 0 <= m <= flength s - foff s /\ m <= left) by (unfold m; lia).
  set (sec := {| sfile := fidx s; soff := foff s; slen := m; spad := fpadc s |}).
  set (s1 := {| fidx := fidx s; flength := flength s; foff := foff s + m; fpadc := fpadc s;
                total := total s + m |}).
  pose proof (sec_ok_cur s m HI (proj1 Hm)) as Hsec. fold sec in Hsec.
  assert (HI1 : CurInv s1).
  { destruct HI as [Hfile Ho' Ht]. constructor; cbn [fidx flength foff fpadc total s1]; auto; lia. }
  pose proof (cur_total_le s HI) as Hle.
  assert (Hfidx : (fidx s < length files)%nat).
  { destruct (ci_file s HI) as (g & Hn & _). apply nth_error_Some. congruence. }
  cbn [total s1]. destruct (total s + m =? L) eqn:EL.
  - exists [sec], s1. cbn [sum_slen fold_right chain_ok]. rewrite Hsec. cbn [slen sec total s1].
    rewrite Z.add_0_r. split; [reflexivity|]. split; [exact HI1|]. split; [reflexivity|].
    split; [lia|]. right; lia.
  - cbn [flength foff s1]. destruct (flength s - (foff s + m) =? 0) eqn:EF.
    + destruct (next_file_ok s1 HI1) as (s2 & E2 & HI2 & Ht2 & Hf2); cbn [foff flength total s1]; try lia.
      rewrite E2. cbn [total s1] in Ht2. cbn [fidx s1] in Hf2.
      destruct (IH s2 (left - m) (secs ++ [sec]) (plen + m) HI2) as (secs2 & s' & E & HI' & Hc & Hs & Hd);
        [lia|lia|].
      exists (sec :: secs2), s'. rewrite E. rewrite <- app_assoc. cbn [app].
      cbn [sum_slen fold_right chain_ok]. rewrite Hsec. cbn [slen sec].
      rewrite Ht2 in *. fold (sum_slen secs2).
      split; [f_equal; f_equal; f_equal; unfold sum_slen in *; lia|].
      split; [exact HI'|]. split; [exact Hc|]. split; [unfold sum_slen in *; lia|]. lia.
    + assert (Hml : m = left) by (unfold m in *; lia).
      destruct f as [|f']; [lia|]. cbn [inner].
      replace (left - m) with 0 by lia. change (0 >? 0) with false. cbv iota.
      exists [sec], s1. cbn [sum_slen fold_right chain_ok]. rewrite Hsec. cbn [slen sec total s1].
      rewrite Z.add_0_r. split; [reflexivity|]. split; [exact HI1|]. split; [reflexivity|].
      split; [lia|]. left; lia.
Qed.

Lemma outer_ok : forall k i s, (Z.of_nat k + i = Z.of_nat n) -> 0 <= i ->
  CurInv s -> total s = Z.min (i * PL) L ->
  exists ps, outer files PL L k s = Ok ps /\ length ps = k /\
    chain_ok files (total s) (flat_map psecs ps) = Some L /\
    piece_lens_ok PL L i (Z.of_nat n) ps = true.
Proof.
  pose proof (wf_pl _ _ _ _ WF) as Hpl. pose proof (wf_lo _ _ _ _ WF) as Hlo.
  pose proof (wf_hi _ _ _ _ WF) as Hhi.
  induction k as [|k IH]; intros i s Hk Hi HI Ht.
  - exists []. cbn. repeat split; auto. f_equal. nia.
  - cbn [outer].
    destruct (inner_ok (inner_fuel files) s PL [] 0 HI) as (secs2 & s' & E & HI' & Hc & Hs & Hd);
      [lia|unfold inner_fuel; lia|].
    rewrite E. cbn [app].
    assert (Hti : total s = i * PL) by nia.
    assert (Ht' : total s' = Z.min ((i + 1) * PL) L).
    { destruct Hd as [Hd|[Hd Hd']]; [|nia].
      pose proof (cur_total_le s' HI') as Hle'. pose proof (ci_off s' HI'). nia. }
    destruct (IH (i + 1) s') as (ps & Eo & Hlen & Hch & Hpl'); [lia|lia|assumption|assumption|].
    rewrite Eo. eexists; split; [reflexivity|]. split; [cbn [length]; lia|]. split.
    + cbn [flat_map psecs]. rewrite chain_ok_app, Hc. exact Hch.
    + cbn [piece_lens_ok plength psecs]. rewrite Hpl'. rewrite Z.add_0_l.
      destruct (i =? Z.of_nat n - 1) eqn:Ei.
      * assert (total s' = L) by nia. lia.
      * assert (total s' = (i + 1) * PL) by nia. lia.
Qed.

Theorem new_pieces_ok :
  exists ps, new_pieces files PL L n = Ok ps /\ length ps = n /\
    chain_ok files 0 (flat_map psecs ps) = Some L /\
    piece_lens_ok PL L 0 (Z.of_nat n) ps = true.
Proof.
  unfold new_pieces, first_file.
  destruct (nth_error files 0) as [f|] eqn:Hn0.
  2:{ exfalso. apply nth_error_None in Hn0. apply (wf_files _ _ _ _ WF).
      destruct files; [reflexivity|cbn in Hn0; lia]. }
  assert (Hf : 0 <= flen f).
  { pose proof (wf_nonneg _ _ _ _ WF) as Hnn. rewrite Forall_forall in Hnn. apply Hnn.
    eapply nth_error_In; eauto. }
  set (s0 := {| fidx := 0; flength := flen f; foff := 0; fpadc := fpad f; total := 0 |}).
  assert (HI : CurInv s0).
  { constructor; cbn [fidx flength foff fpadc total s0]; [exists f; auto|lia|].
    destruct files; reflexivity. }
  pose proof (wf_pl _ _ _ _ WF). pose proof (wf_lo _ _ _ _ WF). pose proof (wf_n _ _ _ _ WF).
  destruct (outer_ok n 0 s0) as (ps & E & Hl & Hc & Hp); [lia|lia|exact HI|cbn [total s0]; nia|].
  exists ps. auto.
Qed.
End WF.

(* What chain_ok means: consecutive sections are adjacent in the concatenation of the files, each
   lies inside its own file and carries that file's padding flag.  Consequences: every absolute
   byte position in [a, b) lies in exactly one section (existence below; uniqueness from order). *)
Definition abs_start (fs : list file) (s : section) : Z := prefix_sum fs (sfile s) + soff s.

Lemma chain_ok_cover fs : forall ss a b, chain_ok fs a ss = Some b ->
  a <= b /\ forall x, a <= x < b -> exists s, In s ss /\ abs_start fs s <= x < abs_start fs s + slen s.
Proof.
  induction ss as [|s r IH]; intros a b H; cbn [chain_ok] in H.
  - inversion H; subst. split; [lia|]. intros x Hx; lia.
  - destruct (sec_ok fs a s) eqn:E; [|discriminate].
    destruct (IH _ _ H) as [Hle Hcov].
    unfold sec_ok in E. destruct (nth_error fs (sfile s)) as [f|]; [|discriminate].
    assert (Ha : abs_start fs s = a /\ 0 <= slen s) by (unfold abs_start; lia).
    split; [lia|]. intros x Hx. destruct (Z_lt_le_dec x (a + slen s)) as [Hlt|Hge].
    + exists s. split; [left; reflexivity|lia].
    + destruct (Hcov x) as (s' & Hin & Hr); [lia|]. exists s'. split; [right; assumption|assumption].
Qed.

(* sections never overlap: a later section starts at or after the end of every earlier one *)
Lemma chain_ok_disjoint fs : forall ss a b, chain_ok fs a ss = Some b ->
  forall s, In s ss -> a <= abs_start fs s /\ abs_start fs s + slen s <= b.
Proof.
  induction ss as [|s r IH]; intros a b H s0 Hin; [destruct Hin|].
  cbn [chain_ok] in H. destruct (sec_ok fs a s) eqn:E; [|discriminate].
  pose proof (chain_ok_cover fs r _ _ H) as [Hle _].
  unfold sec_ok in E. destruct (nth_error fs (sfile s)) as [f|]; [|discriminate].
  destruct Hin as [<-|Hin].
  - unfold abs_start. lia.
  - destruct (IH _ _ H s0 Hin). lia.
Qed.

Example wf_example : wf_info [{| flen := 5; fpad := false |}; {| flen := 0; fpad := false |};
                              {| flen := 3; fpad := true |}; {| flen := 4; fpad := false |}] 4 3 12.
Proof. constructor; cbn; try lia; try discriminate. repeat constructor; cbn; lia. Qed.

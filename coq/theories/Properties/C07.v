(* C07 — path confinement.  Property theorems only. *)
From RainV Require Import Lib Paths PathsProofs.

(* Every file of every accepted torrent (any name bytes, any path-component bytes, single- or
   multi-file) is opened at or below the data directory: the opened path is the data
   directory's components followed by components that are none of "", ".", ".." and contain no
   separator -- whatever the data directory (absolute, clean), so with and without the
   torrent-id level. *)
Theorem C07_accepted_files_stay_below : forall name files js rs,
  accept_paths true name files = Some js -> Forall normal rs ->
  Forall (fun j => exists l, Forall normal l /\ open_path (render true rs) j = render true (rs ++ l)) js.
Proof. exact accepted_files_stay_below. Qed.
Print Assumptions C07_accepted_files_stay_below.

(* string-level reading: strictly below means the prefix "<dest>/" *)
Theorem C07_open_path_prefix : forall rs l, Forall normal rs -> Forall normal l -> rs <> [] -> l <> [] ->
  has_prefix (render true rs ++ [slash]) (open_path (render true rs) (render false l)) = true.
Proof. exact open_path_prefix. Qed.
Print Assumptions C07_open_path_prefix.

(* two different non-padding files never resolve to the same path: accepted joined paths are
   pairwise distinct, and distinct joined paths open distinct files *)
Theorem C07_accepted_paths_distinct : forall name f fs js,
  accept_paths true name (f :: fs) = Some js -> NoDup (nonpad_paths js (f :: fs)).
Proof. exact accepted_paths_distinct. Qed.
Print Assumptions C07_accepted_paths_distinct.

Theorem C07_open_path_injective : forall rs l1 l2, Forall normal rs -> Forall normal l1 -> Forall normal l2 ->
  open_path (render true rs) (render false l1) = open_path (render true rs) (render false l2) -> l1 = l2.
Proof. exact open_path_injective. Qed.
Print Assumptions C07_open_path_injective.

(* no archive entry is extracted outside its (absolute) destination directory *)
Theorem C07_tar_confined : forall dir e t, is_rooted dir = true -> tar_target dir e = Some t ->
  exists k0 l, clean dir = render true k0 /\ t = render true (k0 ++ l) /\
               Forall normal (k0 ++ l) /\ l <> [].
Proof. exact tar_confined. Qed.
Print Assumptions C07_tar_confined.

(* the pinned code accepted the name ".." and produced an escaping path *)
Theorem C07_confinement_refuted_on_pinned_code :
  accept_paths false dotdot [([[98]], false)] = Some [[46;46;47;98]].
Proof. exact accept_paths_dotdot_pinned. Qed.
Print Assumptions C07_confinement_refuted_on_pinned_code.

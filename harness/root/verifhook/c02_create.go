//go:build verif

package verifhook

import (
	"bytes"
	"crypto/sha1"
	"math/rand"
	"os"
	"path/filepath"

	"github.com/cenkalti/rain/v2/internal/logger"
	"github.com/cenkalti/rain/v2/internal/metainfo"
)

// kind 205: create a torrent from a directory tree on disk (metainfo.NewInfoBytes), parse it back
// (metainfo.NewInfo) and hash the files in the order the metainfo lists them: the piece hashes must
// be the recorded ones, i.e. the file order of the metainfo is the order the bytes were hashed in.
// in  = [nfiles tree...]  (the tree: per file a name code and a length; directories come from the codes)
// obs = [1 created and parsed | 0 ; number of files ; 1 every piece hash matches | 0]

var createNames = [][]string{
	{"cd1", "a.bin"}, {"cd1.nfo"}, {"cd1 extras"}, {"cd1", "b.bin"}, {"cd10", "x"}, {"cd1-1"}, {"z.txt"}, {"A.txt"},
	{"season 1", "e1"}, {"season 1 extras"}, {"season 1", "sub", "deep.bin"}, {"season 1.txt"}, {"m"}, {"m", "n"},
}

func runCreateVerify(in []int64) []int64 {
	nf := int(in[0])
	dir, err := os.MkdirTemp("/verif/.work", "create")
	if err != nil {
		return []int64{-710}
	}
	defer os.RemoveAll(dir)
	root := filepath.Join(dir, "tree")
	seen := map[string]bool{}
	files := 0
	for i := 0; i < nf; i++ {
		parts := createNames[int(in[1+2*i])%len(createNames)]
		rel := filepath.Join(parts...)
		// a name is either a file or a directory
		conflict := seen[rel]
		for p := range seen {
			if len(p) > len(rel) && p[:len(rel)+1] == rel+string(filepath.Separator) {
				conflict = true
			}
			if len(rel) > len(p) && rel[:len(p)+1] == p+string(filepath.Separator) {
				conflict = true
			}
		}
		if conflict {
			continue
		}
		seen[rel] = true
		full := filepath.Join(root, rel)
		if err := os.MkdirAll(filepath.Dir(full), 0o755); err != nil {
			return []int64{-711}
		}
		n := int(in[2+2*i])
		b := make([]byte, n)
		for j := range b {
			b[j] = byte((i*31 + j*7 + 3) % 253)
		}
		if err := os.WriteFile(full, b, 0o644); err != nil {
			return []int64{-712}
		}
		files++
	}
	if files == 0 {
		return []int64{0, 0, 0}
	}
	ib, err := metainfo.NewInfoBytes("", []string{root}, false, 16384, "", logger.New("verif"))
	if err != nil {
		return []int64{0, int64(files), 0}
	}
	info, err := metainfo.NewInfo(ib, true, true)
	if err != nil {
		return []int64{0, int64(files), 0}
	}
	// hash in metainfo order
	var all []byte
	for _, f := range info.Files {
		if f.Padding {
			all = append(all, make([]byte, f.Length)...)
			continue
		}
		// Files[i].Path starts with the torrent name (= base of root)
		b, err := os.ReadFile(filepath.Join(dir, f.Path))
		if err != nil || int64(len(b)) != f.Length {
			return []int64{1, int64(len(info.Files)), 0}
		}
		all = append(all, b...)
	}
	ok := int64(len(all)) == info.Length
	for i := uint32(0); ok && i < info.NumPieces; i++ {
		a := int64(i) * int64(info.PieceLength)
		e := a + int64(info.PieceLength)
		if e > int64(len(all)) {
			e = int64(len(all))
		}
		h := sha1.Sum(all[a:e])
		if !bytes.Equal(h[:], info.PieceHash(i)) {
			ok = false
		}
	}
	return []int64{1, int64(len(info.Files)), b2i(ok)}
}

func genCreateVerify(r *rand.Rand, tier string) Case {
	want := 2 + r.Intn(7)
	var chosen []int
	seen := map[string]bool{}
	for try := 0; try < 40 && len(chosen) < want; try++ {
		k := r.Intn(len(createNames))
		rel := filepath.Join(createNames[k]...)
		conflict := seen[rel]
		for p := range seen {
			if len(p) > len(rel) && p[:len(rel)+1] == rel+string(filepath.Separator) {
				conflict = true
			}
			if len(rel) > len(p) && rel[:len(p)+1] == p+string(filepath.Separator) {
				conflict = true
			}
		}
		if !conflict {
			seen[rel] = true
			chosen = append(chosen, k)
		}
	}
	in := []int64{int64(len(chosen))}
	for _, k := range chosen {
		in = append(in, int64(k), pick(r, 1, 5, 100, 16383, 16384, 16385, 40000))
	}
	return Case{In: in, Obs: Guard(func() []int64 { return runCreateVerify(in) })}
}

func init() {
	Register(205, "create a torrent from a directory tree, parse it, re-hash the files in metainfo order", genCreateVerify)
	RegisterReplay(205, runCreateVerify)
}

//go:build verif

package verifhook

import (
	"fmt"
	"math/rand"
	"net"
	"strings"

	"github.com/cenkalti/rain/v2/internal/blocklist"
	"github.com/cenkalti/rain/v2/internal/blocklist/stree"
)

func runStree(in []int64) []int64 {
	n := int(in[0])
	var t stree.Stree
	for i := 0; i < n; i++ {
		t.AddRange(stree.ValueType(in[1+2*i]), stree.ValueType(in[2+2*i]))
	}
	t.Build()
	var obs []int64
	for _, q := range in[1+2*n:] {
		obs = append(obs, b2i(t.Contains(stree.ValueType(q))))
	}
	return obs
}

func genStree(r *rand.Rand, tier string) Case {
	n := r.Intn(8)
	if r.Intn(10) == 0 {
		n = r.Intn(30)
	}
	const max = 1<<32 - 1
	small := r.Intn(2) == 0
	val := func() int64 {
		if small {
			return int64(r.Intn(24))
		}
		return pick(r, 0, 1, max, max-1, int64(r.Uint32()), int64(r.Intn(100)), 1<<31, 1<<31-1)
	}
	in := []int64{int64(n)}
	var pts []int64
	for i := 0; i < n; i++ {
		a, b := val(), val()
		if a > b {
			a, b = b, a
		}
		switch r.Intn(6) {
		case 0:
			b = a // single point
		case 1:
			if len(pts) >= 2 { // share endpoints with earlier ranges (adjacent / nested / duplicate)
				a, b = pts[r.Intn(len(pts))], pts[r.Intn(len(pts))]
				if a > b {
					a, b = b, a
				}
			}
		}
		in = append(in, a, b)
		pts = append(pts, a, b)
	}
	nq := 6 + r.Intn(10)
	for i := 0; i < nq; i++ {
		var q int64
		if len(pts) > 0 && r.Intn(3) != 0 {
			q = pts[r.Intn(len(pts))] + pick(r, -1, 0, 1)
			if q < 0 {
				q = 0
			}
			if q > max {
				q = max
			}
		} else {
			q = val()
		}
		in = append(in, q)
	}
	return Case{In: in, Obs: Guard(func() []int64 { return runStree(in) })}
}

func ipStr(v int64) string {
	return net.IPv4(byte(v>>24), byte(v>>16), byte(v>>8), byte(v)).String()
}

func runBlocklist(in []int64) []int64 {
	bl := blocklist.New()
	var obs []int64
	for len(in) > 0 {
		switch in[0] {
		case 0:
			n := int(in[1])
			in = in[2:]
			var sb strings.Builder
			for i := 0; i < n; i++ {
				switch in[0] {
				case 0:
					fmt.Fprintf(&sb, "%s%s/%d%s\n", []string{"", " ", "\t"}[int(in[1]+in[2])%3], ipStr(in[1]), in[2], []string{"", " ", "\r"}[int(in[1])%3])
					in = in[3:]
				case 1:
					sb.WriteString([]string{"\n", "# comment 1.2.3.4/8\n", "   \n", "#\n"}[i%4])
					in = in[1:]
				default:
					sb.WriteString([]string{"1.2.3.4\n", "1.2.3.4/33\n", "::1/128\n", "garbage\n", "1.2.3/8\n", "::ffff:1.2.3.4/120\n", "1.2.3.4/-1\n"}[i%7])
					in = in[1:]
				}
			}
			cnt, err := bl.Reload(strings.NewReader(sb.String()))
			if err != nil {
				obs = append(obs, -1)
			} else {
				obs = append(obs, int64(cnt))
			}
		case 1:
			ip := in[1]
			in = in[2:]
			obs = append(obs, b2i(bl.Blocked(net.IPv4(byte(ip>>24), byte(ip>>16), byte(ip>>8), byte(ip)))))
		default:
			return obs
		}
	}
	return obs
}

func genBlocklist(r *rand.Rand, tier string) Case {
	var in []int64
	var pts []int64
	const max = 1<<32 - 1
	nops := 2 + r.Intn(5)
	for o := 0; o < nops; o++ {
		if o == 0 || r.Intn(3) == 0 {
			n := r.Intn(7)
			in = append(in, 0, int64(n))
			allBad := r.Intn(6) == 0
			for i := 0; i < n; i++ {
				switch {
				case allBad:
					in = append(in, int64(1+r.Intn(2)))
				case r.Intn(5) == 0:
					in = append(in, int64(1+r.Intn(2)))
				default:
					ip := pick(r, int64(r.Uint32()), 0, max, 0x0A000000, 0x0A0000FF, 0xC0A80101)
					k := pick(r, int64(r.Intn(33)), 0, 32, 31, 24, 8, 1)
					in = append(in, 0, ip, k)
					size := int64(1) << uint(32-k)
					first := ip / size * size
					pts = append(pts, first, first+size-1)
				}
			}
		}
		nq := 1 + r.Intn(5)
		for i := 0; i < nq; i++ {
			var q int64
			if len(pts) > 0 && r.Intn(4) != 0 {
				q = pts[r.Intn(len(pts))] + pick(r, -1, 0, 1)
				if q < 0 {
					q = 0
				}
				if q > max {
					q = max
				}
			} else {
				q = int64(r.Uint32())
			}
			in = append(in, 1, q)
		}
	}
	return Case{In: in, Obs: Guard(func() []int64 { return runBlocklist(in) })}
}

func init() {
	Register(1801, "blocklist.Reload/Blocked on generated rule files and query addresses", genBlocklist)
	RegisterReplay(1801, runBlocklist)
	Register(1802, "stree AddRange/Build/Contains on generated interval lists", genStree)
	RegisterReplay(1802, runStree)
}

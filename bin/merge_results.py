#!/usr/bin/env python3
"""Merge the single-seed result files .work/RESULTS-<id>.md (bin/run_seeds.sh <id>) into seeded/RESULTS.md:
a row of a re-run seed replaces the old row, new seeds are added, rows stay sorted by seed id."""
import re, glob, os
V = '/verif'
rows = {}
def rd(path):
    for l in open(path):
        m = re.match(r'\| (C\d\d-\d+) \| (C\d\d) \| ([^|]*) \| ([^|]*) \|', l)
        if m:
            rows[m.group(1)] = l.rstrip('\n')
rd(V + '/seeded/RESULTS.md')
for f in sorted(glob.glob(V + '/.work/RESULTS-C??-*.md'), key=os.path.getmtime):
    rd(f)
def key(s):
    a, b = s.split('-'); return (a, int(b))
out = ['# Seeded changes vs checks (bin/run_seeds.sh, quick tier; rows of seeds re-run one at a time merged by bin/merge_results.py)', '',
       '| seed | property | outcome | detail |', '|---|---|---|---|']
out += [rows[k] for k in sorted(rows, key=key)]
open(V + '/seeded/RESULTS.md', 'w').write('\n'.join(out) + '\n')
print(len(rows), 'rows')

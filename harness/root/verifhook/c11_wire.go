//go:build verif

package verifhook

import (
	"bytes"
	"encoding/binary"
	"io"
	"math/rand"
	"net"
	"sort"
	"sync"
	"time"

	"github.com/cenkalti/rain/v2/internal/logger"
	"github.com/cenkalti/rain/v2/internal/peerconn/peerreader"
	"github.com/cenkalti/rain/v2/internal/peerconn/peerwriter"
	"github.com/cenkalti/rain/v2/internal/peerprotocol"
)

// WMsg is a plain description of a wire message (mirror of Wire.msg).
type WMsg struct {
	Tag     int64 // flat tag of Wire.enc_msg
	A, B, C int64
	Data    []byte
	S1, S2  []byte
	MKeys   [][]byte
	MVals   []int64
}

func lpBytes(b []byte) []int64 {
	o := []int64{int64(len(b))}
	for _, c := range b {
		o = append(o, int64(c))
	}
	return o
}

func (m WMsg) Flat() []int64 {
	switch m.Tag {
	case 0, 1, 2, 3, 14, 15:
		return []int64{m.Tag}
	case 4, 17, 9:
		return []int64{m.Tag, m.A}
	case 5:
		return append([]int64{5}, lpBytes(m.Data)...)
	case 6, 8, 16:
		return []int64{m.Tag, m.A, m.B, m.C}
	case 7:
		return append([]int64{7, m.A, m.B}, lpBytes(m.Data)...)
	case 100:
		o := []int64{100, int64(len(m.MKeys))}
		for i := range m.MKeys {
			o = append(o, lpBytes(m.MKeys[i])...)
			o = append(o, m.MVals[i])
		}
		o = append(o, lpBytes(m.S1)...)
		o = append(o, lpBytes(m.S2)...)
		return append(o, m.A, m.B)
	case 101:
		return append([]int64{101, m.A, m.B, m.C}, lpBytes(m.Data)...)
	case 102:
		return append(append([]int64{102}, lpBytes(m.S1)...), lpBytes(m.S2)...)
	}
	return []int64{-1}
}

func takeLP(in []int64) ([]byte, []int64) {
	n := int(in[0])
	b := make([]byte, n)
	for i := 0; i < n; i++ {
		b[i] = byte(in[1+i])
	}
	return b, in[1+n:]
}

func ParseWMsgs(in []int64) []WMsg {
	var out []WMsg
	for len(in) > 0 {
		var m WMsg
		m.Tag = in[0]
		in = in[1:]
		switch m.Tag {
		case 0, 1, 2, 3, 14, 15:
		case 4, 17, 9:
			m.A = in[0]
			in = in[1:]
		case 5:
			m.Data, in = takeLP(in)
		case 6, 8, 16:
			m.A, m.B, m.C = in[0], in[1], in[2]
			in = in[3:]
		case 7:
			m.A, m.B = in[0], in[1]
			m.Data, in = takeLP(in[2:])
		case 100:
			n := int(in[0])
			in = in[1:]
			for i := 0; i < n; i++ {
				var k []byte
				k, in = takeLP(in)
				m.MKeys = append(m.MKeys, k)
				m.MVals = append(m.MVals, in[0])
				in = in[1:]
			}
			m.S1, in = takeLP(in)
			m.S2, in = takeLP(in)
			m.A, m.B = in[0], in[1]
			in = in[2:]
		case 101:
			m.A, m.B, m.C = in[0], in[1], in[2]
			m.Data, in = takeLP(in[3:])
		case 102:
			m.S1, in = takeLP(in)
			m.S2, in = takeLP(in)
		default:
			return out
		}
		out = append(out, m)
	}
	return out
}

type fixedReaderAt struct{ data []byte }

func (f fixedReaderAt) ReadAt(p []byte, off int64) (int, error) { return copy(p, f.data), nil }

// runWriter pushes the messages through a real PeerWriter over net.Pipe and returns the bytes
// it wrote followed by [-1, sum of BlockUploaded lengths].
func runWriter(in []int64) []int64 {
	msgs := ParseWMsgs(in)
	c1, c2 := net.Pipe()
	w := peerwriter.New(c1, logger.New("verif"), 1<<20, true, nil)
	go w.Run()
	var mu sync.Mutex
	var got bytes.Buffer
	sentinel := []byte{0, 0, 0, 3, 9, 0xFF, 0xFE}
	cond := sync.NewCond(&mu)
	eof := false
	go func() {
		buf := make([]byte, 65536)
		for {
			n, err := c2.Read(buf)
			mu.Lock()
			got.Write(buf[:n])
			if err != nil {
				eof = true
			}
			cond.Broadcast()
			mu.Unlock()
			if err != nil {
				return
			}
		}
	}()
	// barrier: send the sentinel, wait until it shows up at the end of the stream, remove it
	barrier := func() {
		w.SendMessage(peerprotocol.PortMessage{Port: 0xFFFE})
		deadline := time.AfterFunc(5*time.Second, func() { mu.Lock(); eof = true; cond.Broadcast(); mu.Unlock() })
		defer deadline.Stop()
		mu.Lock()
		for !bytes.HasSuffix(got.Bytes(), sentinel) && !eof {
			cond.Wait()
		}
		if bytes.HasSuffix(got.Bytes(), sentinel) {
			got.Truncate(got.Len() - len(sentinel))
		}
		mu.Unlock()
	}
	var uploaded int64
	upDone := make(chan struct{})
	go func() {
		defer close(upDone)
		for {
			select {
			case ev := <-w.Messages():
				if bu, ok := ev.(peerwriter.BlockUploaded); ok {
					uploaded += int64(bu.Length)
				}
			case <-w.Done():
				return
			}
		}
	}()
	for _, m := range msgs {
		switch m.Tag {
		case 0:
			w.SendMessage(peerprotocol.ChokeMessage{})
		case 1:
			w.SendMessage(peerprotocol.UnchokeMessage{})
		case 2:
			w.SendMessage(peerprotocol.InterestedMessage{})
		case 3:
			w.SendMessage(peerprotocol.NotInterestedMessage{})
		case 14:
			w.SendMessage(peerprotocol.HaveAllMessage{})
		case 15:
			w.SendMessage(peerprotocol.HaveNoneMessage{})
		case 4:
			w.SendMessage(peerprotocol.HaveMessage{Index: uint32(m.A)})
		case 17:
			w.SendMessage(peerprotocol.AllowedFastMessage{HaveMessage: peerprotocol.HaveMessage{Index: uint32(m.A)}})
		case 9:
			w.SendMessage(peerprotocol.PortMessage{Port: uint16(m.A)})
		case 5:
			w.SendMessage(&peerprotocol.BitfieldMessage{Data: m.Data})
		case 6:
			w.SendMessage(peerprotocol.RequestMessage{Index: uint32(m.A), Begin: uint32(m.B), Length: uint32(m.C)})
		case 8:
			w.SendMessage(peerprotocol.CancelMessage{RequestMessage: peerprotocol.RequestMessage{Index: uint32(m.A), Begin: uint32(m.B), Length: uint32(m.C)}})
		case 16:
			w.SendMessage(peerprotocol.RejectMessage{RequestMessage: peerprotocol.RequestMessage{Index: uint32(m.A), Begin: uint32(m.B), Length: uint32(m.C)}})
		case 7:
			w.SendPiece(peerprotocol.RequestMessage{Index: uint32(m.A), Begin: uint32(m.B), Length: uint32(len(m.Data))}, fixedReaderAt{m.Data})
			barrier() // a later choke would legitimately flush a piece that is still queued
		case 100:
			mm := map[string]uint8{}
			for i := range m.MKeys {
				mm[string(m.MKeys[i])] = uint8(m.MVals[i])
			}
			w.SendMessage(peerprotocol.ExtensionMessage{ExtendedMessageID: 0, Payload: peerprotocol.ExtensionHandshakeMessage{
				M: mm, V: string(m.S1), YourIP: string(m.S2), MetadataSize: int(m.A), RequestQueue: int(m.B)}})
		case 101:
			w.SendMessage(peerprotocol.ExtensionMessage{ExtendedMessageID: 1, Payload: peerprotocol.ExtensionMetadataMessage{
				Type: int(m.A), Piece: uint32(m.B), TotalSize: int(m.C), Data: m.Data}})
		case 102:
			w.SendMessage(peerprotocol.ExtensionMessage{ExtendedMessageID: 2, Payload: peerprotocol.ExtensionPEXMessage{
				Added: string(m.S1), Dropped: string(m.S2)}})
		}
	}
	barrier()
	w.Stop()
	<-w.Done()
	<-upDone
	c2.Close()
	mu.Lock()
	b := append([]byte{}, got.Bytes()...)
	mu.Unlock()
	obs := make([]int64, 0, len(b)+2)
	for _, c := range b {
		obs = append(obs, int64(c))
	}
	return append(obs, -1, uploaded)
}

func genWMsg(r *rand.Rand, forReader bool) WMsg {
	u32 := func() int64 {
		return pick(r, 0, 1, 255, 256, 65535, 1<<31, 1<<32-1, 16384, 16383, int64(r.Uint32()))
	}
	rb := func(n int) []byte {
		b := make([]byte, n)
		r.Read(b)
		return b
	}
	switch r.Intn(17) {
	case 0:
		return WMsg{Tag: pick(r, 0, 1, 2, 3, 14, 15)}
	case 1:
		return WMsg{Tag: pick(r, 0, 1, 2, 3, 14, 15)}
	case 2:
		return WMsg{Tag: 4, A: u32()}
	case 3:
		return WMsg{Tag: 17, A: u32()}
	case 4:
		return WMsg{Tag: 9, A: pick(r, 0, 1, 255, 256, 65535, 6881)}
	case 5:
		return WMsg{Tag: 5, Data: rb([]int{0, 1, 2, 7, 100, 16392, 16393, 20000}[r.Intn(8)])}
	case 6, 7:
		l := u32()
		if forReader || r.Intn(2) == 0 {
			l = pick(r, 0, 1, 16384, 16383, 100)
		}
		return WMsg{Tag: 6, A: u32(), B: u32(), C: l}
	case 8:
		return WMsg{Tag: 8, A: u32(), B: u32(), C: u32()}
	case 9:
		return WMsg{Tag: 16, A: u32(), B: u32(), C: u32()}
	case 10, 11:
		return WMsg{Tag: 7, A: u32(), B: u32(), Data: rb([]int{0, 1, 5, 100, 16383, 16384}[r.Intn(6)])}
	case 12, 13:
		m := WMsg{Tag: 100, S1: rb(r.Intn(12)), A: pick(r, 0, 1, 16384, 1<<20), B: pick(r, 0, 1, 250, 500)}
		if r.Intn(2) == 0 {
			m.S2 = rb(4)
		}
		keys := [][]byte{[]byte("ut_metadata"), []byte("ut_pex"), []byte("a"), []byte("zz")}
		n := r.Intn(4)
		ks := map[string]bool{}
		for i := 0; i < n; i++ {
			ks[string(keys[r.Intn(len(keys))])] = true
		}
		var sk []string
		for k := range ks {
			sk = append(sk, k)
		}
		sort.Strings(sk)
		for _, k := range sk {
			m.MKeys = append(m.MKeys, []byte(k))
			m.MVals = append(m.MVals, int64(r.Intn(256)))
		}
		return m
	case 14, 15:
		return WMsg{Tag: 101, A: int64(r.Intn(3)), B: pick(r, 0, 1, 5, 1<<32-1), C: pick(r, 0, 16384, 100000), Data: rb([]int{0, 0, 10, 16384}[r.Intn(4)])}
	default:
		return WMsg{Tag: 102, S1: rb(6 * r.Intn(4)), S2: rb(6 * r.Intn(3))}
	}
}

func genWriter(r *rand.Rand, tier string) Case {
	n := 1 + r.Intn(8)
	var in []int64
	seen := map[[3]int64]bool{}
	for i := 0; i < n; i++ {
		m := genWMsg(r, false)
		in = append(in, m.Flat()...)
		if m.Tag == 7 && r.Intn(3) == 0 { // the same request served again: must go out as a reject, uncounted
			in = append(in, m.Flat()...)
		}
		_ = seen
	}
	if len(in) == 0 {
		in = []int64{0}
	}
	return Case{In: in, Obs: Guard(func() []int64 { return runWriter(in) })}
}

// independent encoder (harness side, from the BEPs) used to build reader inputs
func frame(id byte, payload []byte) []byte {
	b := make([]byte, 4, 5+len(payload))
	binary.BigEndian.PutUint32(b, uint32(1+len(payload)))
	b = append(b, id)
	return append(b, payload...)
}
func u32b(vs ...int64) []byte {
	var b []byte
	for _, v := range vs {
		b = binary.BigEndian.AppendUint32(b, uint32(v))
	}
	return b
}
func benStr(s []byte) []byte {
	return append([]byte(itoa(len(s))+":"), s...)
}
func itoa(n int) string {
	return string(appendInt(nil, int64(n)))
}
func appendInt(b []byte, v int64) []byte {
	if v < 0 {
		b = append(b, '-')
		v = -v
	}
	var d []byte
	if v == 0 {
		d = []byte{'0'}
	}
	for v > 0 {
		d = append([]byte{byte('0' + v%10)}, d...)
		v /= 10
	}
	return append(b, d...)
}
func benInt(v int64) []byte { return append(appendInt([]byte{'i'}, v), 'e') }

func (m WMsg) Wire() []byte {
	switch m.Tag {
	case 0, 1, 2, 3, 14, 15:
		return frame(byte(m.Tag), nil)
	case 4, 17:
		return frame(byte(m.Tag), u32b(m.A))
	case 9:
		return frame(9, []byte{byte(m.A >> 8), byte(m.A)})
	case 5:
		return frame(5, m.Data)
	case 6, 8, 16:
		return frame(byte(m.Tag), u32b(m.A, m.B, m.C))
	case 7:
		return frame(7, append(u32b(m.A, m.B), m.Data...))
	case 100:
		p := []byte{0, 'd', '1', ':', 'm', 'd'}
		for i := range m.MKeys {
			p = append(p, benStr(m.MKeys[i])...)
			p = append(p, benInt(m.MVals[i])...)
		}
		p = append(p, 'e')
		if m.A != 0 {
			p = append(append(p, benStr([]byte("metadata_size"))...), benInt(m.A)...)
		}
		p = append(append(p, benStr([]byte("reqq"))...), benInt(m.B)...)
		p = append(append(p, benStr([]byte("v"))...), benStr(m.S1)...)
		if len(m.S2) > 0 {
			p = append(append(p, benStr([]byte("yourip"))...), benStr(m.S2)...)
		}
		return frame(20, append(p, 'e'))
	case 101:
		p := []byte{1, 'd'}
		p = append(append(p, benStr([]byte("msg_type"))...), benInt(m.A)...)
		p = append(append(p, benStr([]byte("piece"))...), benInt(m.B)...)
		if m.C != 0 {
			p = append(append(p, benStr([]byte("total_size"))...), benInt(m.C)...)
		}
		p = append(p, 'e')
		return frame(20, append(p, m.Data...))
	case 102:
		p := []byte{2, 'd'}
		p = append(append(p, benStr([]byte("added"))...), benStr(m.S1)...)
		p = append(append(p, benStr([]byte("dropped"))...), benStr(m.S2)...)
		return frame(20, append(p, 'e'))
	}
	return nil
}

func flatOfReal(msg any) []int64 {
	rq := func(tag int64, m peerprotocol.RequestMessage) []int64 {
		return []int64{tag, int64(m.Index), int64(m.Begin), int64(m.Length)}
	}
	switch m := msg.(type) {
	case peerprotocol.ChokeMessage:
		return []int64{0}
	case peerprotocol.UnchokeMessage:
		return []int64{1}
	case peerprotocol.InterestedMessage:
		return []int64{2}
	case peerprotocol.NotInterestedMessage:
		return []int64{3}
	case peerprotocol.HaveAllMessage:
		return []int64{14}
	case peerprotocol.HaveNoneMessage:
		return []int64{15}
	case peerprotocol.HaveMessage:
		return []int64{4, int64(m.Index)}
	case peerprotocol.AllowedFastMessage:
		return []int64{17, int64(m.Index)}
	case peerprotocol.PortMessage:
		return []int64{9, int64(m.Port)}
	case peerprotocol.BitfieldMessage:
		return append([]int64{5}, lpBytes(m.Data)...)
	case peerprotocol.RequestMessage:
		return rq(6, m)
	case peerprotocol.CancelMessage:
		return rq(8, m.RequestMessage)
	case peerprotocol.RejectMessage:
		return rq(16, m.RequestMessage)
	case peerreader.Piece:
		return append([]int64{7, int64(m.Index), int64(m.Begin)}, lpBytes(m.Buffer.Data)...)
	case peerprotocol.ExtensionHandshakeMessage:
		var ks []string
		for k := range m.M {
			ks = append(ks, k)
		}
		sort.Strings(ks)
		o := []int64{100, int64(len(ks))}
		for _, k := range ks {
			o = append(o, lpBytes([]byte(k))...)
			o = append(o, int64(m.M[k]))
		}
		o = append(o, lpBytes([]byte(m.V))...)
		o = append(o, lpBytes([]byte(m.YourIP))...)
		return append(o, int64(m.MetadataSize), int64(m.RequestQueue))
	case peerprotocol.ExtensionMetadataMessage:
		return append([]int64{101, int64(m.Type), int64(m.Piece), int64(m.TotalSize)}, lpBytes(m.Data)...)
	case peerprotocol.ExtensionPEXMessage:
		return append(append([]int64{102}, lpBytes([]byte(m.Added))...), lpBytes([]byte(m.Dropped))...)
	}
	return []int64{-2}
}

// runReader feeds bytes with scripted chunking into a real PeerReader.
// in = [maxmsg; nbytes; bytes...; chunk sizes...]
func runReader(in []int64) []int64 {
	maxmsg := int(in[0])
	data, rest := takeLP(in[1:])
	c1, c2, err := TCPPair()
	if err != nil {
		return []int64{-704}
	}
	rd := peerreader.New(c1, logger.New("verif"), 5*time.Second, maxmsg, nil)
	go rd.Run()
	go func() {
		pos := 0
		for _, ch := range rest {
			if pos >= len(data) {
				break
			}
			n := int(ch)
			if n <= 0 {
				n = 1
			}
			if pos+n > len(data) {
				n = len(data) - pos
			}
			if _, err := c2.Write(data[pos : pos+n]); err != nil {
				return
			}
			pos += n
		}
		if pos < len(data) {
			if _, err := c2.Write(data[pos:]); err != nil {
				return
			}
		}
		c2.Close()
	}()
	var obs []int64
	for {
		select {
		case m := <-rd.Messages():
			obs = append(obs, flatOfReal(m)...)
			if p, ok := m.(peerreader.Piece); ok {
				p.Buffer.Release()
			}
		case <-rd.Done():
			c1.Close()
			c2.Close()
			return obs
		}
	}
}

var pairMu sync.Mutex
var pairLn net.Listener

// TCPPair returns two connected loopback TCP connections (real socket semantics: data written
// before a close is still readable, deadlines can be set after the peer closed).
func TCPPair() (net.Conn, net.Conn, error) {
	pairMu.Lock()
	defer pairMu.Unlock()
	if pairLn == nil {
		ln, err := net.Listen("tcp", "127.0.0.1:0")
		if err != nil {
			return nil, nil, err
		}
		pairLn = ln
	}
	type res struct {
		c   net.Conn
		err error
	}
	ch := make(chan res, 1)
	go func() {
		c, err := pairLn.Accept()
		ch <- res{c, err}
	}()
	c2, err := net.Dial("tcp", pairLn.Addr().String())
	if err != nil {
		return nil, nil, err
	}
	r := <-ch
	if r.err != nil {
		c2.Close()
		return nil, nil, r.err
	}
	return r.c, c2, nil
}

func genReader(r *rand.Rand, tier string) Case {
	maxmsg := pick(r, 30<<20, 30<<20, 100, 1000, 16393, 20000)
	var data []byte
	n := 1 + r.Intn(8)
	for i := 0; i < n; i++ {
		m := genWMsg(r, true)
		w := m.Wire()
		switch r.Intn(14) {
		case 0: // keep-alive in between
			data = append(data, 0, 0, 0, 0)
		case 1: // unknown id with payload
			w = frame(byte(pick(r, 10, 11, 12, 13, 18, 19, 21, 99, 255)), make([]byte, r.Intn(20)))
		case 2: // hostile length prefix
			if len(w) >= 4 {
				binary.BigEndian.PutUint32(w, uint32(pick(r, 1, 2, 9, 13, 16393, 16394, 1<<31, 1<<32-1, int64(len(w)))))
			}
		case 3: // truncate the stream here
			w = w[:r.Intn(len(w)+1)]
			data = append(data, w...)
			i = n
			continue
		case 4: // request over the block limit
			w = frame(6, u32b(1, 0, pick(r, 16385, 1<<20, 1<<32-1)))
		case 5: // piece shorter than its header / over the limit
			w = frame(7, make([]byte, []int{0, 3, 7, 8, 16393, 16394}[r.Intn(6)]))
		case 6: // garbage extension payload
			w = frame(20, append([]byte{byte(r.Intn(4))}, []byte("xx")...))
		}
		data = append(data, w...)
	}
	in := []int64{maxmsg}
	in = append(in, lpBytes(data)...)
	// chunking
	switch r.Intn(4) {
	case 0:
		for i := 0; i < len(data); i++ {
			in = append(in, 1)
		}
	case 1:
		for i := 0; i < 64; i++ {
			in = append(in, int64(1+r.Intn(7)))
		}
	case 2:
		for i := 0; i < 16; i++ {
			in = append(in, int64(1+r.Intn(20000)))
		}
	}
	_ = io.EOF
	return Case{In: in, Obs: Guard(func() []int64 { return runReader(in) })}
}

// runReaderSlow: like runReader but with a short piece timeout and pauses between chunks, so a
// block arrives across several read deadlines.  in = [maxmsg; nbytes; bytes...; (chunk pause_ms)*]
func runReaderSlow(in []int64) []int64 {
	maxmsg := int(in[0])
	data, rest := takeLP(in[1:])
	c1, c2, err := TCPPair()
	if err != nil {
		return []int64{-704}
	}
	rd := peerreader.New(c1, logger.New("verif"), 100*time.Millisecond, maxmsg, nil)
	go rd.Run()
	go func() {
		pos := 0
		for i := 0; i+1 < len(rest) && pos < len(data); i += 2 {
			n := int(rest[i])
			if pos+n > len(data) {
				n = len(data) - pos
			}
			if _, err := c2.Write(data[pos : pos+n]); err != nil {
				return
			}
			pos += n
			time.Sleep(time.Duration(rest[i+1]) * time.Millisecond)
		}
		if pos < len(data) {
			_, _ = c2.Write(data[pos:])
		}
		c2.Close()
	}()
	var obs []int64
	for {
		select {
		case m := <-rd.Messages():
			obs = append(obs, flatOfReal(m)...)
			if p, ok := m.(peerreader.Piece); ok {
				p.Buffer.Release()
			}
		case <-rd.Done():
			c1.Close()
			c2.Close()
			return obs
		}
	}
}

func genReaderSlow(r *rand.Rand, tier string) Case {
	// have, piece (delivered in 2..5 slow chunks inside its data), have
	dl := 200 + r.Intn(3000)
	pm := WMsg{Tag: 7, A: int64(r.Intn(100)), B: 16384 * int64(r.Intn(4)), Data: make([]byte, dl)}
	r.Read(pm.Data)
	h1 := WMsg{Tag: 4, A: int64(r.Intn(1000))}
	h2 := WMsg{Tag: 4, A: int64(r.Intn(1000))}
	data := append(append(h1.Wire(), pm.Wire()...), h2.Wire()...)
	in := append([]int64{30 << 20}, lpBytes(data)...)
	k := 6 + r.Intn(4)
	first := 9 + 13 + 10 + r.Intn(dl/k) // header of the piece plus some of its data
	in = append(in, int64(first), 40)
	for i := 1; i < k-1; i++ {
		in = append(in, int64(1+r.Intn(dl/k)), 40)
	}
	// every 100 ms window contains a chunk, so the reader must keep the connection; scheduling
	// jitter can starve a window, therefore an incomplete delivery is retried (flake policy)
	obs := Guard(func() []int64 { return runReaderSlow(in) })
	want := len(h1.Flat()) + len(pm.Flat()) + len(h2.Flat())
	for try := 0; try < 2 && len(obs) != want; try++ {
		obs = Guard(func() []int64 { return runReaderSlow(in) })
	}
	return Case{In: in, Obs: obs}
}

// runRoundtrip: messages -> real PeerWriter -> TCP -> real PeerReader -> messages
func runRoundtrip(in []int64) []int64 {
	w := runWriter(in)
	if len(w) < 2 {
		return []int64{-706}
	}
	w = w[:len(w)-2]
	rin := append([]int64{30 << 20, int64(len(w))}, w...)
	for i := 0; i < 8; i++ {
		rin = append(rin, 1+int64(len(in)*7+i*13)%97)
	}
	return runReader(rin)
}

func genRoundtrip(r *rand.Rand, tier string) Case {
	n := 1 + r.Intn(6)
	var in []int64
	for i := 0; i < n; i++ {
		m := genWMsg(r, true)
		if m.Tag == 101 && r.Intn(2) == 0 { // metadata messages of big infos: large piece index / total size
			m.B = pick(r, 99, 100, 1234, 99999)
			m.C = pick(r, 0, 9999999, 10000000, 30<<20)
		}
		in = append(in, m.Flat()...)
	}
	return Case{In: in, Obs: Guard(func() []int64 { return runRoundtrip(in) })}
}

func init() {
	Register(1103, "peerreader with a 100 ms piece timeout, block delivered in slow chunks", genReaderSlow)
	RegisterReplay(1103, runReaderSlow)
	Register(1104, "round trip: messages -> real PeerWriter -> TCP -> real PeerReader", genRoundtrip)
	RegisterReplay(1104, runRoundtrip)
	Register(1101, "peerwriter over net.Pipe: bytes written and BlockUploaded sum", genWriter)
	RegisterReplay(1101, runWriter)
	Register(1102, "peerreader over net.Pipe with scripted chunking: messages delivered", genReader)
	RegisterReplay(1102, runReader)
}

// ---- kind 1105: the writer's queue while the connection is blocked ----
// in  = [maxQueuedRequests fast] then messages (tag 8 = the peer cancels that request: CancelRequest)
// obs = the bytes written once the connection is released, then [-1, sum of BlockUploaded lengths]

type gateConn struct {
	net.Conn
	gate    chan struct{}
	arrived chan struct{}
	once    sync.Once
}

func (g *gateConn) Write(p []byte) (int, error) {
	g.once.Do(func() { close(g.arrived) })
	<-g.gate
	return g.Conn.Write(p)
}

func sendWMsg(w *peerwriter.PeerWriter, m WMsg, cancelIsOp bool) {
	switch m.Tag {
	case 0:
		w.SendMessage(peerprotocol.ChokeMessage{})
	case 1:
		w.SendMessage(peerprotocol.UnchokeMessage{})
	case 2:
		w.SendMessage(peerprotocol.InterestedMessage{})
	case 3:
		w.SendMessage(peerprotocol.NotInterestedMessage{})
	case 4:
		w.SendMessage(peerprotocol.HaveMessage{Index: uint32(m.A)})
	case 16:
		w.SendMessage(peerprotocol.RejectMessage{RequestMessage: peerprotocol.RequestMessage{Index: uint32(m.A), Begin: uint32(m.B), Length: uint32(m.C)}})
	case 8:
		if cancelIsOp {
			w.CancelRequest(peerprotocol.CancelMessage{RequestMessage: peerprotocol.RequestMessage{Index: uint32(m.A), Begin: uint32(m.B), Length: uint32(m.C)}})
		}
	case 7:
		w.SendPiece(peerprotocol.RequestMessage{Index: uint32(m.A), Begin: uint32(m.B), Length: uint32(len(m.Data))}, fixedReaderAt{m.Data})
	}
}

func runWQueue(in []int64) []int64 {
	if len(in) < 3 {
		return []int64{-701}
	}
	maxq, fast := int(in[0]), in[1] != 0
	msgs := ParseWMsgs(in[2:])
	if len(msgs) == 0 {
		return []int64{-702}
	}
	c1, c2 := net.Pipe()
	g := &gateConn{Conn: c1, gate: make(chan struct{}), arrived: make(chan struct{})}
	w := peerwriter.New(g, logger.New("verif"), maxq, fast, nil)
	go w.Run()
	var mu sync.Mutex
	var got bytes.Buffer
	sentinel := []byte{0, 0, 0, 3, 9, 0xFF, 0xFE}
	cond := sync.NewCond(&mu)
	eof := false
	go func() {
		buf := make([]byte, 65536)
		for {
			n, err := c2.Read(buf)
			mu.Lock()
			got.Write(buf[:n])
			if err != nil {
				eof = true
			}
			cond.Broadcast()
			mu.Unlock()
			if err != nil {
				return
			}
		}
	}()
	var uploaded int64
	upDone := make(chan struct{})
	go func() {
		defer close(upDone)
		for {
			select {
			case ev := <-w.Messages():
				if bu, ok := ev.(peerwriter.BlockUploaded); ok {
					uploaded += int64(bu.Length)
				}
			case <-w.Done():
				return
			}
		}
	}()
	sendWMsg(w, msgs[0], true)
	select {
	case <-g.arrived: // the first message is being written now: it has left the queue
	case <-time.After(10 * time.Second):
		close(g.gate)
		w.Stop()
		c2.Close()
		return []int64{-703}
	}
	for _, m := range msgs[1:] {
		sendWMsg(w, m, true)
	}
	close(g.gate)
	w.SendMessage(peerprotocol.PortMessage{Port: 0xFFFE})
	deadline := time.AfterFunc(10*time.Second, func() { mu.Lock(); eof = true; cond.Broadcast(); mu.Unlock() })
	mu.Lock()
	for !bytes.HasSuffix(got.Bytes(), sentinel) && !eof {
		cond.Wait()
	}
	if bytes.HasSuffix(got.Bytes(), sentinel) {
		got.Truncate(got.Len() - len(sentinel))
	}
	mu.Unlock()
	deadline.Stop()
	w.Stop()
	<-w.Done()
	<-upDone
	c2.Close()
	mu.Lock()
	b := append([]byte{}, got.Bytes()...)
	mu.Unlock()
	obs := make([]int64, 0, len(b)+2)
	for _, c := range b {
		obs = append(obs, int64(c))
	}
	return append(obs, -1, uploaded)
}

func genWQueue(r *rand.Rand, tier string) Case {
	maxq := 1 + r.Intn(4)
	fast := r.Intn(2) == 0
	in := []int64{int64(maxq), b2i(fast)}
	type req struct{ a, b int64; data []byte }
	var reqs []req
	if r.Intn(4) == 0 {
		// a late cancel: the first piece has left the queue (it is being written) when the peer cancels it;
		// then more requests than the queue may hold.  The cancel must not free a slot a second time.
		d := make([]byte, 1+r.Intn(40))
		r.Read(d)
		first := WMsg{Tag: 7, A: 9, B: 0, Data: d}
		in = append(in, first.Flat()...)
		in = append(in, WMsg{Tag: 8, A: 9, B: 0, C: int64(len(d))}.Flat()...)
		for k := 0; k < maxq+2; k++ {
			d2 := make([]byte, 1+r.Intn(20))
			r.Read(d2)
			in = append(in, WMsg{Tag: 7, A: int64(k), B: 16384, Data: d2}.Flat()...)
		}
		return Case{In: in, Obs: Guard(func() []int64 { return runWQueue(in) })}
	}
	n := 2 + r.Intn(9)
	for i := 0; i < n; i++ {
		x := r.Intn(10)
		var m WMsg
		switch {
		case i == 0 && x < 6, i > 0 && x < 5: // a piece (sometimes the same request again)
			if len(reqs) > 0 && r.Intn(4) == 0 {
				q := reqs[r.Intn(len(reqs))]
				m = WMsg{Tag: 7, A: q.a, B: q.b, Data: q.data}
			} else {
				d := make([]byte, 1+r.Intn(40))
				r.Read(d)
				m = WMsg{Tag: 7, A: int64(r.Intn(4)), B: int64(16384 * r.Intn(3)), Data: d}
				reqs = append(reqs, req{m.A, m.B, d})
			}
		case x < 7 && i > 0: // choke
			m = WMsg{Tag: 0}
		case x < 9 && i > 0 && len(reqs) > 0: // the peer cancels a request
			q := reqs[r.Intn(len(reqs))]
			m = WMsg{Tag: 8, A: q.a, B: q.b, C: int64(len(q.data))}
		default:
			m = []WMsg{{Tag: 1}, {Tag: 4, A: int64(r.Intn(100))}, {Tag: 2}}[r.Intn(3)]
		}
		in = append(in, m.Flat()...)
	}
	return Case{In: in, Obs: Guard(func() []int64 { return runWQueue(in) })}
}

func init() {
	Register(1105, "peerwriter queue while the connection is blocked: pieces, choke, cancelled requests, queue bound", genWQueue)
	RegisterReplay(1105, runWQueue)
}

(* Private torrents (property C19).
   Part 1: the private flag as read from the info dictionary (internal/metainfo/info.go parsePrivateField).
   Part 2: every path by which a peer address can enter a torrent, the DHT announcer, the PEX senders,
   the magnet export, the metadata fetched through a magnet link and the identity strings, as a state
   machine over the events of torrent/torrent_run.go (start, stop, connect, extension handshake, PEX
   message, DHT result, tracker result, user-added peers, port message, magnet export, metadata).
   [fixed = false] is the code as pinned: peers from PEX messages and DHT results were accepted by
   private torrents (torrent/torrent_peer.go handleNewPeers).  Definitions only. *)
From RainV Require Import Lib Bencode.

(* ---- part 1 ---- *)
Definition int64_ok (z : Z) : bool := (- 9223372036854775808 <=? z) && (z <=? 9223372036854775807).

Definition priv_of_val (v : bval) : bool :=
  match v with
  | BInt z => if int64_ok z then negb (z =? 0) else true
  | BStr s => negb (bytes_eqb s [] || bytes_eqb s [48])
  | _ => true
  end.

(* the raw bytes of the value of the key "private"; [] = the key is absent *)
Definition priv_of_raw (s : list Z) : bool :=
  match s with
  | [] => false
  | _ => match decode s with
         | Some (v, []) => priv_of_val v
         | _ => true
         end
  end.

Definition run_priv_flag (inp : list Z) : list Z := [b2z (priv_of_raw inp)].

(* ---- part 2 ---- *)
Record pcfg := { c_dht : bool; c_pex : bool; c_dial : bool }.
Record ppeer := { q_closed : bool; q_shaken : bool; q_pex : bool }.

(* p_info: 0 = added by magnet link, the info behind it is public; 3 = added by magnet link, the info
   behind it is private; 1 = metainfo known and public; 2 = metainfo known and private *)
Record pst := { p_info : Z; p_run : bool;
                p_t : Z; p_d : Z; p_p : Z; p_m : Z;     (* addresses known, by source: tracker, DHT, PEX, user *)
                p_ann : bool;                           (* a DHT announcer exists *)
                p_peers : list ppeer }.

Definition is_priv (s : pst) : bool := p_info s =? 2.

Definition pinit (info : Z) : pst :=
  {| p_info := info; p_run := false; p_t := 0; p_d := 0; p_p := 0; p_m := 0; p_ann := false; p_peers := [] |}.

(* sources: 5 = PEX, 6 = DHT, 7 = tracker, 8 = user *)
Definition accepts (fixed : bool) (c : pcfg) (s : pst) (src : Z) : bool :=
  p_run s &&
  (if src =? 5 then c_pex c && (negb fixed || negb (is_priv s))
   else if src =? 6 then negb fixed || negb (is_priv s)
   else true).

Definition add_addrs (fixed : bool) (c : pcfg) (s : pst) (src n : Z) : pst :=
  if accepts fixed c s src then
    {| p_info := p_info s; p_run := p_run s;
       p_t := if src =? 7 then p_t s + n else p_t s;
       p_d := if src =? 6 then p_d s + n else p_d s;
       p_p := if src =? 5 then p_p s + n else p_p s;
       p_m := if src =? 8 then p_m s + n else p_m s;
       p_ann := p_ann s; p_peers := p_peers s |}
  else s.

Definition close_peer (q : ppeer) : ppeer := {| q_closed := true; q_shaken := q_shaken q; q_pex := false |}.

Definition stopped (s : pst) : pst :=
  {| p_info := p_info s; p_run := false; p_t := 0; p_d := 0; p_p := 0; p_m := 0; p_ann := false;
     p_peers := map close_peer (p_peers s) |}.

Definition set_peers (s : pst) (l : list ppeer) : pst :=
  {| p_info := p_info s; p_run := p_run s; p_t := p_t s; p_d := p_d s; p_p := p_p s; p_m := p_m s;
     p_ann := p_ann s; p_peers := l |}.

Fixpoint upd_peer (l : list ppeer) (i : nat) (f : ppeer -> ppeer) : list ppeer :=
  match l, i with
  | q :: r, O => f q :: r
  | q :: r, S k => q :: upd_peer r k f
  | [], _ => []
  end.

Definition peer_open (s : pst) (p : Z) : bool :=
  (0 <=? p) && (p <? zlen (p_peers s)) &&
  negb (q_closed (nth (Z.to_nat p) (p_peers s) {| q_closed := true; q_shaken := false; q_pex := false |})).

Inductive pev :=
| PStart (n : Z)          (* start; the tracker answers the first announce with n addresses *)
| PStop
| PConnect
| PShake (p : Z) (pex : bool)   (* extension handshake from peer p; advertises ut_pex *)
| PPex (p n : Z)          (* PEX message from peer p with n new addresses *)
| PAddrs (src n : Z)      (* n new addresses from the DHT (6), a tracker (7) or the user (8) *)
| PPort (p : Z)           (* port message *)
| PExport                 (* the user asks for the magnet link *)
| PMeta (p : Z)           (* peer p delivers the complete metadata (magnet links only) *)
| PProbe (src p : Z)      (* the address of a listener we own arrives by src (5: in a PEX message from p) *)
| PAnnounce.              (* the user asks for an announce *)

(* the step: new state and the event's own outputs *)
Definition pstep (fixed : bool) (c : pcfg) (s : pst) (e : pev) : pst * list Z :=
  match e with
  | PStart n =>
      if p_run s then (s, [-1; -1])
      else
        let s1 := {| p_info := p_info s; p_run := true; p_t := 0; p_d := 0; p_p := 0; p_m := 0;
                     p_ann := c_dht c && negb (is_priv s); p_peers := p_peers s |} in
        (add_addrs fixed c s1 7 n, [b2z (is_priv s); b2z (is_priv s)])   (* user agent, peer id prefix of the announce *)
  | PStop => (stopped s, [])
  | PConnect =>
      if p_run s then (set_peers s (p_peers s ++ [{| q_closed := false; q_shaken := false; q_pex := false |}]), [b2z (is_priv s)])
      else (s, [-1])
  | PShake p pex =>
      if peer_open s p then
        (set_peers s (upd_peer (p_peers s) (Z.to_nat p)
           (fun q => if q_shaken q then q
                     else {| q_closed := false; q_shaken := true; q_pex := c_pex c && pex && (p_info s =? 1) |})), [])
      else (s, [])
  | PPex p n => if peer_open s p then (add_addrs fixed c s 5 n, []) else (s, [])
  | PAddrs src n => if (src =? 6) || (src =? 7) || (src =? 8) then (add_addrs fixed c s src n, []) else (s, [])
  | PPort p => (s, [])
  | PExport => (s, [b2z (is_priv s)])              (* refused *)
  | PMeta p =>
      if p_run s && peer_open s p then
        if p_info s =? 0 then
          ({| p_info := 1; p_run := true; p_t := p_t s; p_d := p_d s; p_p := p_p s; p_m := p_m s; p_ann := p_ann s; p_peers := p_peers s |}, [1])
        else if p_info s =? 3 then (stopped s, [0])    (* refused: the torrent stops with an error *)
        else (s, [-1])
      else (s, [-1])
  | PProbe src p =>
      if (src =? 5) && negb (peer_open s p) then (s, [0])
      else if (5 <=? src) && (src <=? 8) then
        (add_addrs fixed c s src 1, [b2z (accepts fixed c s src && c_dial c)])     (* dialled *)
      else (s, [0])
  | PAnnounce => (s, [])
  end.

Definition pex_flags (s : pst) (P : nat) : list Z :=
  map (fun i => b2z (q_pex (nth i (p_peers s) {| q_closed := true; q_shaken := false; q_pex := false |}))) (seq 0 P).

Definition obs_priv (s : pst) (P : nat) : list Z :=
  [p_t s; p_d s; p_p s; p_m s; b2z (p_ann s); 0] ++ pex_flags s P ++ [b2z (p_run s); b2z ((p_info s =? 1) || (p_info s =? 2))].

Definition dec_pev (l : list Z) : option (pev * list Z) :=
  match l with
  | 1 :: n :: r => Some (PStart n, r)
  | 2 :: r => Some (PStop, r)
  | 3 :: r => Some (PConnect, r)
  | 4 :: p :: f :: r => Some (PShake p (z2b f), r)
  | 5 :: p :: n :: r => Some (PPex p n, r)
  | 6 :: n :: r => Some (PAddrs 6 n, r)
  | 7 :: n :: r => Some (PAddrs 7 n, r)
  | 8 :: n :: r => Some (PAddrs 8 n, r)
  | 9 :: p :: r => Some (PPort p, r)
  | 10 :: r => Some (PExport, r)
  | 11 :: p :: r => Some (PMeta p, r)
  | 12 :: src :: p :: r => Some (PProbe src p, r)
  | 13 :: r => Some (PAnnounce, r)
  | _ => None
  end.

Fixpoint run_priv_go (fuel : nat) (fixed : bool) (c : pcfg) (P : nat) (s : pst) (l : list Z) : list Z :=
  match fuel with
  | O => []
  | S f =>
      match dec_pev l with
      | Some (e, r) => let '(s', out) := pstep fixed c s e in obs_priv s' P ++ out ++ run_priv_go f fixed c P s' r
      | None => match l with [] => [] | _ => [-779] end
      end
  end.

(* in = [info dht pex dial P pidpriv] ++ events; the first observation is the torrent as added:
   state and whether its peer id carries the private prefix *)
Definition run_priv (fixed : bool) (inp : list Z) : list Z :=
  match inp with
  | info :: dht :: pex :: dial :: P :: evs =>
      let c := {| c_dht := z2b dht; c_pex := z2b pex; c_dial := z2b dial |} in
      let s := pinit info in
      obs_priv s (Z.to_nat P) ++ [b2z (is_priv s)] ++ run_priv_go (length evs) fixed c (Z.to_nat P) s evs
  | _ => [-779]
  end.

Definition run_events (fixed : bool) (c : pcfg) (s : pst) (evs : list pev) : pst :=
  fold_left (fun s e => fst (pstep fixed c s e)) evs s.

(* ---- user agent per torrent when torrents share a tracker URL (kind 1903) ----
   the agent is a function of the torrent's own private flag, not of who used the URL first *)
Definition agent_of (private : bool) : Z := if private then 1 else 0.
Definition run_shared_tracker (inp : list Z) : list Z :=
  match inp with
  | [_] => [agent_of false; agent_of true]
  | _ => [-779]
  end.

//go:build verif

package piecedownloader

// PendingLen returns the number of in-flight block requests.
func (d *PieceDownloader) PendingLen() int { return len(d.pending) }

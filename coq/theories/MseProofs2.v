(* Proofs about Mse.v, part 2: what either party does on any input; the honest run. *)
From RainV Require Import Lib Mse MseProofs.
From Coq Require Import ZifyBool.

(* the key schedule (256 swaps, 1024 discarded bytes) must never be unfolded by a tactic *)
Global Opaque rc4_init.

(* ---- what either party does on any input at all ---- *)
Ltac bm := match goal with |- context [match ?x with _ => _ end] => destruct x eqn:? end; cbv beta iota.
(* a branch that ended in [failed]: its error code is not 0 *)
Ltac kf := try match goal with
               | |- p_err (failed _ _ _) = 0 -> _ =>
                   cbn [p_err failed]; let Hx := fresh "Hx" in intro Hx; try discriminate Hx;
                   try (exfalso; revert Hx; apply read_sync_err_of_none; assumption)
               end.
Ltac break_match := repeat (bm; kf).

Lemma initiator_sends ya padA provide lenC ia o incoming chunks f :
  first_read chunks 0 = Some f -> provide <> 0 -> zlen ia <= 65535 ->
  let a := initiator ya padA provide lenC ia o incoming chunks in
  p_sent1 a = ya ++ padA /\
  p_sent2 a = o_req1 o ++ xor20 (o_req2 o) (o_req3 o) ++ fst (rc4_xor (rc4_init (o_keyA o)) (hs3 provide lenC ia)).
Proof.
  intros Hf Hp Hi. cbv zeta. unfold initiator. destruct (provide =? 0) eqn:Ep; [lia|].
  destruct (65535 <? zlen ia) eqn:Ei; [lia|]. rewrite Hf. fold (hs3 provide lenC ia).
  destruct (rc4_xor (rc4_init (o_keyA o)) (hs3 provide lenC ia)) as [bd e1]. cbn [fst].
  fold (xor20 (o_req2 o) (o_req3 o)).
  repeat bm; cbn [p_sent1 p_sent2 failed]; auto.
Qed.

(* forced encryption, initiator: only RC4 is offered; whatever the peer answers, a completed handshake
   never leaves the stream in clear text *)
Lemma initiator_forced ya padA lenC ia o incoming chunks :
  let a := initiator ya padA 2 lenC ia o incoming chunks in
  p_err a = 0 -> p_sel a <> 1 /\ (exists c, p_enc a = CRc4 c) /\ (exists c, p_dec a = CRc4 c).
Proof.
  cbv zeta. unfold initiator. cbn [Z.eqb].
  break_match; cbn [p_err p_sel p_enc p_dec]; intros _.
  match goal with H : negb (sel_valid ?s 2) = false |- _ => apply negb_false_iff in H; pose proof (sel_valid_forced_not_plain _ H) as Hs end.
  unfold cipher_for. match goal with |- ?s <> 1 /\ _ => destruct (Z.eqb_spec s 1) as [E|E]; [contradiction|] end.
  split; [exact E|]. split; eexists; reflexivity.
Qed.

(* forced encryption, responder (policy 1): a completed handshake selected RC4 *)
Lemma responder_forced yb padB lenD k o known incoming chunks :
  let b := responder yb padB lenD 1 k o known incoming chunks in
  p_err b = 0 -> p_sel b = 2 /\ (exists c, p_enc b = CRc4 c) /\ (exists c, p_dec b = CRc4 c).
Proof.
  cbv zeta. unfold responder.
  break_match; cbn [p_err p_sel p_enc p_dec]; intros _.
  match goal with H : negb (sel_valid (sel_policy 1 k ?p) ?p) = false |- _ =>
    apply negb_false_iff in H; destruct (sel_policy_forced k p) as [E|E]; rewrite E in *; [discriminate H|] end.
  split; [reflexivity|]. split; eexists; reflexivity.
Qed.

(* a completed handshake always selected one of the offered methods, on both sides *)
Lemma initiator_selected_offered ya padA provide lenC ia o incoming chunks :
  let a := initiator ya padA provide lenC ia o incoming chunks in
  p_err a = 0 -> sel_valid (p_sel a) provide = true.
Proof.
  cbv zeta. unfold initiator.
  break_match; cbn [p_err p_sel]; intros _.
  match goal with H : negb (sel_valid _ _) = false |- _ => apply negb_false_iff in H; exact H end.
Qed.

(* an initiator that gets the second message and nothing more does not complete *)
Lemma initiator_no_reply ya padA provide lenC ia o yb padB chunks f :
  first_read chunks 0 = Some f -> f <= 96 + zlen padB -> zlen yb = 96 ->
  no_early (fst (rc4_xor (rc4_init (o_keyB o)) vc)) (skipn (Z.to_nat f) (yb ++ padB)) ->
  p_err (initiator ya padA provide lenC ia o (yb ++ padB) chunks) <> 0.
Proof.
  intros Hf Hfle Hyb Hne. unfold initiator.
  destruct (provide =? 0); [cbn; lia|]. destruct (65535 <? zlen ia); [cbn; lia|]. rewrite Hf.
  destruct (rc4_xor (rc4_init (o_keyA o)) _) as [bd e1].
  destruct (rc4_xor (rc4_init (o_keyB o)) vc) as [vcenc d1] eqn:EV. cbn [fst] in Hne.
  assert (Lv : zlen vcenc = 8) by (pose proof (rc4_xor_zlen (rc4_init (o_keyB o)) vc) as X; rewrite EV in X; exact X).
  rewrite read_sync_not_found; [| unfold zlen in Lv; lia | exact Hne].
  cbn [p_err failed]. apply read_sync_err_of_none. apply read_sync_not_found; [unfold zlen in Lv; lia | exact Hne].
Qed.

Section Run.
  Variables (ya padA yb padB ia : list Z) (provide lenC lenD pol polk : Z) (o : oracle) (known : list Z).
  Variables (chunksAB chunksBA : list Z) (f1 f2 : Z).
  Hypothesis Hya : zlen ya = 96.
  Hypothesis Hyb : zlen yb = 96.
  Hypothesis Hr1 : zlen (o_req1 o) = 20.
  Hypothesis Hr2 : zlen (o_req2 o) = 20.
  Hypothesis Hr3 : zlen (o_req3 o) = 20.
  Hypothesis Hprov : 0 < provide < 4294967296.
  Hypothesis HlenC : 0 <= lenC < 65536.
  Hypothesis HlenD : 0 <= lenD < 65536.
  Hypothesis Hia : zlen ia < 65536.
  Hypothesis Hpolk : 0 <= polk < 4294967296.
  (* pads as the protocol allows them *)
  Hypothesis HpadA : zlen padA <= 512.
  Hypothesis HpadB : zlen padB <= 512.
  (* the transport: the first read of each side returns between 96 bytes and the whole first message *)
  Hypothesis Hf1 : first_read chunksAB 0 = Some f1.
  Hypothesis Hf1le : f1 <= 96 + zlen padA.
  Hypothesis Hf2 : first_read chunksBA 0 = Some f2.
  Hypothesis Hf2le : f2 <= 96 + zlen padB.
  (* the synchronisation patterns (a SHA-1 value, 8 key stream bytes) do not occur in the random padding *)
  Hypothesis HneA : no_early (o_req1 o) (skipn (Z.to_nat f1) (ya ++ padA)).
  Hypothesis HneB : no_early (fst (rc4_xor (rc4_init (o_keyB o)) vc)) (skipn (Z.to_nat f2) (yb ++ padB)).

  Let sel := sel_policy pol polk provide.
  Let r := honest ya padA provide lenC ia o yb padB lenD pol polk o known chunksAB chunksBA.

  Lemma a0_sent :
    let a0 := initiator ya padA provide lenC ia o (yb ++ padB) chunksBA in
    p_sent1 a0 ++ p_sent2 a0 =
    (ya ++ padA) ++ (o_req1 o ++ xor20 (o_req2 o) (o_req3 o) ++ fst (rc4_xor (rc4_init (o_keyA o)) (hs3 provide lenC ia))) ++ [].
  Proof.
    cbv zeta. destruct (initiator_sends ya padA provide lenC ia o (yb ++ padB) chunksBA f2 Hf2 ltac:(lia) ltac:(lia)) as [E1 E2].
    rewrite E1, E2, app_nil_r. reflexivity.
  Qed.

  (* same key on both sides, a valid selection: both complete, agree on an offered method, the initial
     payload arrives intact and so does every byte written afterwards, in both directions *)
  Theorem honest_run_agrees : known = o_req2 o -> sel_valid sel provide = true ->
    p_err (u_a r) = 0 /\ p_err (u_b r) = 0 /\ p_sel (u_a r) = sel /\ p_sel (u_b r) = sel /\
    sel_valid sel provide = true /\ p_ia (u_b r) = ia /\
    (forall d, recv (u_b r) (send (u_a r) d) = d) /\ (forall d, recv (u_a r) (send (u_b r) d) = d).
  Proof.
    intros Hk Hsel. unfold r, honest. cbn [u_a u_b]. rewrite a0_sent.
    rewrite responder_honest with (f := f1) by assumption.
    rewrite Hk, list_eqb_Z_refl. cbn [negb]. fold sel. rewrite Hsel. cbn [negb p_sent1 p_sent2].
    assert (EA : initiator ya padA provide lenC ia o ((yb ++ padB) ++ fst (rc4_xor (rc4_init (o_keyB o)) (hs4 sel lenD))) chunksBA =
                 {| p_sent1 := ya ++ padA;
                    p_sent2 := o_req1 o ++ xor20 (o_req2 o) (o_req3 o) ++ fst (rc4_xor (rc4_init (o_keyA o)) (hs3 provide lenC ia));
                    p_err := 0; p_sel := sel; p_ia := []; p_rest := [];
                    p_enc := cipher_for sel (snd (rc4_xor (rc4_init (o_keyA o)) (hs3 provide lenC ia)));
                    p_dec := cipher_for sel (snd (rc4_xor (rc4_init (o_keyB o)) (hs4 sel lenD))) |}).
    { rewrite <- (app_nil_r (fst (rc4_xor (rc4_init (o_keyB o)) (hs4 sel lenD)))) at 1.
      apply initiator_honest with (f := f2); assumption. }
    rewrite EA.
    cbn [p_err p_sel p_ia]. repeat split; try reflexivity; try exact Hsel.
    - intro d. unfold recv, send. cbn [p_rest p_enc p_dec app]. rewrite cxor_inv. reflexivity.
    - intro d. unfold recv, send. cbn [p_rest p_enc p_dec app]. rewrite cxor_inv. reflexivity.
  Qed.

  (* same key, but the responder's choice is not a single offered method: both sides fail *)
  Theorem honest_run_invalid_selection : known = o_req2 o -> sel_valid sel provide = false ->
    p_err (u_a r) <> 0 /\ p_err (u_b r) <> 0.
  Proof.
    intros Hk Hsel. unfold r, honest. cbn [u_a u_b]. rewrite a0_sent.
    rewrite responder_honest with (f := f1) by assumption.
    rewrite Hk, list_eqb_Z_refl. cbn [negb]. fold sel. rewrite Hsel. cbn [negb p_sent1 p_sent2 failed p_err]. rewrite app_nil_r.
    split; [|lia]. apply (initiator_no_reply ya padA provide lenC ia o yb padB chunksBA f2 Hf2 Hf2le Hyb HneB).
  Qed.

  (* a wrong key (the responder does not know the stream key the initiator used): nobody completes *)
  Theorem wrong_key_never_completes : known <> o_req2 o ->
    p_err (u_a r) <> 0 /\ p_err (u_b r) <> 0.
  Proof.
    intros Hk. unfold r, honest. cbn [u_a u_b]. rewrite a0_sent.
    rewrite responder_honest with (f := f1) by assumption.
    rewrite (list_eqb_Z_neq (o_req2 o) known) by congruence. cbn [negb p_sent1 p_sent2 failed p_err]. rewrite app_nil_r.
    split; [|lia]. apply (initiator_no_reply ya padA provide lenC ia o yb padB chunksBA f2 Hf2 Hf2le Hyb HneB).
  Qed.
End Run.

(* why both sides hold the same secret: the Diffie-Hellman exchange (the oracle values of the two sides
   are derived from it by SHA-1; that derivation is not modelled) *)
From Coq Require Import Zpow_facts.
Lemma dh_shared_secret g xa xb p : 0 < p -> 0 <= xa -> 0 <= xb ->
  ((g ^ xb mod p) ^ xa) mod p = ((g ^ xa mod p) ^ xb) mod p.
Proof.
  intros Hp Ha Hb. rewrite <- !Zpower_mod by exact Hp. rewrite <- !Z.pow_mul_r by assumption. f_equal. f_equal. lia.
Qed.

(* a concrete run (the premises of the theorems above are met by real executions; the correspondence check
   compares thousands of them byte for byte with the implementation) *)
Example honest_concrete :
  let o := {| o_req1 := repeat 11 20; o_req2 := repeat 12 20; o_req3 := repeat 13 20; o_keyA := repeat 14 20; o_keyB := repeat 15 20 |} in
  let r := honest (repeat 7 96) [1; 2; 3] 3 2 [9; 9] o (repeat 8 96) [4] 1 0 0 o (repeat 12 20) [99; 5; 200] [97; 40] in
  (p_err (u_a r), p_err (u_b r), p_sel (u_a r), p_sel (u_b r), p_ia (u_b r),
   recv (u_b r) (send (u_a r) [1; 2; 3]), recv (u_a r) (send (u_b r) [250; 0]), list_eqb_Z (send (u_a r) [1; 2; 3]) [1; 2; 3])
  = (0, 0, 2, 2, [9; 9], [1; 2; 3], [250; 0], false).
Proof. vm_compute. reflexivity. Qed.

From RainV Require Import Lib Ram.
From Coq Require Import ZifyBool.

Definition lsum (l : list (Z * Z)) : Z := fold_right (fun kv acc => snd kv + acc) 0 l.

Record RInv (s : ram) : Prop := {
  ri_range : 0 <= available s <= limit_ s;
  ri_sum : limit_ s - available s = lsum (live s);
  ri_obj : objects s = zlen (live s);
  ri_nonneg : Forall (fun kv => 0 <= snd kv) (live s)
}.

Lemma find_del_live id : forall l n, find_live id l = Some n ->
  lsum (del_live id l) = lsum l - n /\ zlen (del_live id l) = zlen l - 1 /\
  (Forall (fun kv => 0 <= snd kv) l -> Forall (fun kv : Z * Z => 0 <= snd kv) (del_live id l) /\ 0 <= n).
Proof.
  induction l as [|[k m] r IH]; intros n H; cbn [find_live] in H; [discriminate|]. cbn [del_live].
  destruct (k =? id) eqn:E.
  - inversion H; subst. unfold lsum, zlen. cbn [fold_right snd length]. repeat split; try lia.
    + inversion H0; assumption.
    + inversion H0; subst. cbn in H3. exact H3.
  - destruct (IH n H) as (A & B & C). unfold lsum, zlen in *. cbn [fold_right snd length]. repeat split; try lia.
    + inversion H0; subst. constructor; [assumption|]. apply C. assumption.
    + inversion H0; subst. apply C. assumption.
Qed.

Lemma find_pending_nonneg id : forall l q, find_pending id l = Some q -> In q l.
Proof.
  induction l as [|x r IH]; intros q H; cbn [find_pending] in H; [discriminate|].
  destruct (q_id x =? id); [inversion H; left; reflexivity|right; apply IH; exact H].
Qed.

(* pending requests carry non-negative sizes (negative requests are refused at the door) *)
Definition PendOk (s : ram) : Prop := Forall (fun q => 0 <= q_n q) (pending s).

Lemma del_pending_ok id l : Forall (fun q => 0 <= q_n q) l -> Forall (fun q => 0 <= q_n q) (del_pending id l).
Proof.
  induction 1 as [|x r Hx Hr IH]; cbn [del_pending]; [constructor|]. destruct (q_id x =? id); [assumption|constructor; assumption].
Qed.

Theorem rstep_inv fixed s o s' : RInv s -> PendOk s -> rstep fixed s o = Some s' -> RInv s' /\ PendOk s'.
Proof.
  intros [Hr Hs Ho Hn] Hp H. destruct o as [id key n closed out|id|id|id|]; cbn [rstep] in H.
  - destruct (n <? 0) eqn:En; [destruct out; inversion H; subst; split; [constructor; assumption|assumption]|].
    destruct out.
    + destruct (available s >=? n) eqn:E; [|discriminate]. inversion H; subst. split; [|exact Hp].
      constructor; cbn [available limit_ objects live]; unfold lsum, zlen in *; cbn [fold_right snd length]; try lia.
      constructor; [cbn; lia|assumption].
    + destruct (available s >=? n); [discriminate|]. inversion H; subst. split; [constructor; assumption|].
      unfold PendOk. cbn [pending]. apply Forall_app. split; [exact Hp|repeat constructor; cbn; lia].
    + destruct (closed && fixed); inversion H; subst. split; [constructor; assumption|assumption].
    + destruct (closed && negb fixed); inversion H; subst. split; [constructor; assumption|assumption].
    + discriminate.
  - destruct (find_live id (live s)) as [n|] eqn:E; [|discriminate]. inversion H; subst.
    destruct (find_del_live id (live s) n E) as (A & B & C). destruct (C Hn) as [C1 C2]. split; [|exact Hp].
    constructor; cbn [available limit_ objects live]; try lia; try assumption.
    unfold lsum in *. assert (0 <= lsum (del_live id (live s))).
    { clear -C1. unfold lsum. induction C1; cbn [fold_right]; lia. }
    unfold lsum in *. lia.
  - destruct (find_pending id (pending s)); inversion H; subst; (split; [constructor; assumption|]); [|assumption].
    unfold PendOk. cbn [pending]. rewrite Forall_map. eapply Forall_impl; [|exact Hp].
    intros q Hq. destruct (q_id q =? id); cbn; exact Hq.
  - destruct (find_pending id (pending s)) as [q|] eqn:E; [|discriminate].
    destruct (q_n q <=? available s) eqn:El; [|discriminate]. inversion H; subst.
    assert (Hq : 0 <= q_n q).
    { apply find_pending_nonneg in E. unfold PendOk in Hp. rewrite Forall_forall in Hp. apply Hp. exact E. }
    split; [|unfold PendOk; cbn [pending]; apply del_pending_ok; exact Hp].
    constructor; cbn [available limit_ objects live]; unfold lsum, zlen in *; cbn [fold_right snd length]; try lia.
    constructor; [cbn; lia|assumption].
  - inversion H; subst. split; [constructor; assumption|assumption].
Qed.

Fixpoint rrun (fixed : bool) (s : ram) (ops : list rop) : option ram :=
  match ops with
  | [] => Some s
  | o :: r => match rstep fixed s o with Some s' => rrun fixed s' r | None => None end
  end.

(* C17: for every sequence of request / notification / cancellation / release events, memory
   reserved never exceeds the limit or goes negative, equals the sum of the reservations that are
   held, and the object counter equals their number *)
Theorem ram_balance fixed lim ops s : 0 <= lim -> rrun fixed (ram_init lim) ops = Some s -> RInv s.
Proof.
  intros Hl. assert (G : forall ops s0, RInv s0 -> PendOk s0 -> rrun fixed s0 ops = Some s -> RInv s).
  { induction ops0 as [|o r IH]; intros s0 I P H; cbn [rrun] in H; [inversion H; subst; exact I|].
    destruct (rstep fixed s0 o) as [s1|] eqn:E; [|discriminate].
    destruct (rstep_inv fixed s0 o s1 I P E) as [I1 P1]. eapply IH; eauto. }
  apply G; [|constructor]. constructor; cbn; [lia|lia|reflexivity|constructor].
Qed.

(* a caller is never left blocked by an already-cancelled request (after the fix) ... *)
Theorem request_never_stuck s id key n closed : rstep true s (RReq id key n closed Stuck) = None.
Proof. cbn [rstep]. destruct (n <? 0); [reflexivity|]. destruct closed; reflexivity. Qed.

(* ... which the pinned code allowed *)
Theorem request_stuck_pinned : exists s id key n, rstep false s (RReq id key n true Stuck) = Some s.
Proof. exists (ram_init 16), 1, 0, 2. reflexivity. Qed.

Example ram_example : exists s, rrun true (ram_init 8) [RReq 1 0 8 false Acquired; RReq 2 1 4 false Queued; RRelease 1; RNotified 2] = Some s /\ available s = 4.
Proof. eexists. split; reflexivity. Qed.

//go:build verif

package verifhook

import (
	"io"
	"math/rand"

	"github.com/cenkalti/rain/v2/internal/allocator"
	"github.com/cenkalti/rain/v2/internal/metainfo"
	"github.com/cenkalti/rain/v2/internal/piece"
	"github.com/cenkalti/rain/v2/internal/storage"
	"github.com/cenkalti/rain/v2/internal/urldownloader"
)

// MemFile is a fixed-size in-memory storage.File.
type MemFile struct{ B []byte }

func (m *MemFile) ReadAt(p []byte, off int64) (int, error) {
	if off >= int64(len(m.B)) {
		return 0, io.EOF
	}
	n := copy(p, m.B[off:])
	if n < len(p) {
		return n, io.EOF
	}
	return n, nil
}
func (m *MemFile) WriteAt(p []byte, off int64) (int, error) {
	if off+int64(len(p)) > int64(len(m.B)) {
		return 0, io.ErrShortWrite
	}
	return copy(m.B[off:], p), nil
}
func (m *MemFile) Close() error { return nil }

// PiecesWithStorage builds pieces over in-memory files (padding files use storage.PaddingFile
// exactly as the allocator does).
func PiecesWithStorage(pl int64, lens []int64, pads []bool) (*metainfo.Info, []piece.Piece, []*MemFile, error) {
	tot := sumLens(lens)
	np := int((tot + pl - 1) / pl)
	b := InfoBytes("t", pl, np, lens, pads, false)
	info, err := metainfo.NewInfo(b, true, true)
	if err != nil {
		return nil, nil, nil, err
	}
	files := make([]allocator.File, len(info.Files))
	mems := make([]*MemFile, len(info.Files))
	for i, f := range info.Files {
		files[i] = allocator.File{Name: f.Path, Padding: f.Padding}
		mems[i] = &MemFile{B: make([]byte, f.Length)}
		for k := range mems[i].B {
			mems[i].B[k] = byte(200 + i%50)
		}
		if f.Padding {
			files[i].Storage = storage.NewPaddingFile(f.Length)
		} else {
			files[i].Storage = mems[i]
		}
	}
	return info, piece.NewPieces(info, files), mems, nil
}

func decodeLayout(in []int64) (pl int64, lens []int64, pads []bool, rest []int64) {
	pl = in[0]
	nf := int(in[2])
	for i := 0; i < nf; i++ {
		lens = append(lens, in[3+2*i])
		pads = append(pads, in[4+2*i] != 0)
	}
	return pl, lens, pads, in[3+2*nf:]
}

func runSectionIO(in []int64) []int64 {
	pl, lens, pads, rest := decodeLayout(in)
	_, ps, mems, err := PiecesWithStorage(pl, lens, pads)
	if err != nil {
		return []int64{-700}
	}
	pi := int(rest[0])
	nb := int(rest[1])
	buf := make([]byte, nb)
	for i := range buf {
		buf[i] = byte(rest[2+i])
	}
	rest = rest[2+nb:]
	nr := int(rest[0])
	rest = rest[1:]
	p := ps[pi]
	var obs []int64
	st := Guard(func() []int64 {
		_, err := p.Data.Write(buf)
		if err != nil {
			return []int64{-701}
		}
		return []int64{0}
	})
	obs = append(obs, st...)
	for _, m := range mems {
		obs = append(obs, int64(len(m.B)))
		for _, c := range m.B {
			obs = append(obs, int64(c))
		}
	}
	for i := 0; i < nr; i++ {
		off, n := rest[2*i], rest[2*i+1]
		obs = append(obs, Guard(func() []int64 {
			b := make([]byte, n)
			for j := range b { // a used buffer: padding must be written as zeros, not skipped
				b[j] = 0xA5
			}
			k, err := p.Data.ReadAt(b, off)
			o := []int64{0, b2i(err != nil), int64(k)}
			for _, c := range b[:k] {
				o = append(o, int64(c))
			}
			return o
		})...)
	}
	return obs
}

func genSectionIO(r *rand.Rand, tier string) Case {
	unit := []int64{4, 8}[r.Intn(2)]
	pl, lens, pads := genLayout(r, unit, 7)
	tot := sumLens(lens)
	np := (tot + pl - 1) / pl
	in := []int64{pl, np, int64(len(lens))}
	for i := range lens {
		in = append(in, lens[i], b2i(pads[i]))
	}
	pi := int64(r.Intn(int(np)))
	plen := pl
	if pi == np-1 {
		plen = tot - pl*(np-1)
	}
	in = append(in, pi, plen)
	for i := int64(0); i < plen; i++ {
		in = append(in, int64(1+r.Intn(150)))
	}
	nr := 6 + r.Intn(10)
	in = append(in, int64(nr))
	for i := 0; i < nr; i++ {
		off := int64(r.Intn(int(plen) + 1))
		n := int64(r.Intn(int(plen-off) + 1))
		switch r.Intn(8) {
		case 0:
			n = plen - off
		case 1:
			off, n = 0, plen
		case 2:
			n = plen - off + int64(r.Intn(3)) // may run past the end: short read
		}
		in = append(in, off, n)
	}
	return Case{In: in, Obs: Guard(func() []int64 { return runSectionIO(in) })}
}

func runCreateJobs(in []int64) []int64 {
	pl, lens, pads, rest := decodeLayout(in)
	info, ps, _, err := PiecesWithStorage(pl, lens, pads)
	if err != nil {
		return []int64{-700}
	}
	idx := map[string]int64{}
	for i, f := range info.Files {
		idx[f.Path] = int64(i)
	}
	var obs []int64
	for _, j := range urldownloader.CreateJobs(ps, uint32(rest[0]), uint32(rest[1])) {
		obs = append(obs, idx[j.Filename], j.RangeBegin, j.Length, b2i(j.Padding))
	}
	return obs
}

func genCreateJobs(r *rand.Rand, tier string) Case {
	unit := []int64{4, 8, 16384}[r.Intn(3)]
	pl, lens, pads := genLayout(r, unit, 8)
	tot := sumLens(lens)
	np := (tot + pl - 1) / pl
	in := []int64{pl, np, int64(len(lens))}
	for i := range lens {
		in = append(in, lens[i], b2i(pads[i]))
	}
	b := int64(r.Intn(int(np)))
	e := b + int64(r.Intn(int(np-b)+1))
	if r.Intn(3) == 0 {
		b, e = 0, np
	}
	in = append(in, b, e)
	return Case{In: in, Obs: Guard(func() []int64 { return runCreateJobs(in) })}
}

func init() {
	Register(203, "filesection.Piece Write then ReadAt over in-memory files", genSectionIO)
	RegisterReplay(203, runSectionIO)
	Register(204, "urldownloader.createJobs over NewPieces output", genCreateJobs)
	RegisterReplay(204, runCreateJobs)
}

#!/bin/bash
# Apply every seeded change under /verif/seeded/<id>/patch.diff to /repo, run the quick check of
# its property, undo it, and write seeded/RESULTS.md (which check caught which change).
cd /verif
out=seeded/RESULTS.md; [ -n "$1" ] && out=.work/RESULTS-$1.md
echo "# Seeded changes vs checks (bin/run_seeds.sh, quick tier)" > $out
echo >> $out; echo "| seed | property | outcome | detail |" >> $out; echo "|---|---|---|---|" >> $out
for d in /verif/seeded/*/; do
  id=$(basename $d); prop=${id%%-*}
  [ -n "$1" ] && [ "$1" != "$prop" ] && [ "$1" != "$id" ] && continue
  if grep -q '"obsolete"' $d/meta.json 2>/dev/null; then echo "| $id | $prop | obsolete at the current HEAD (see meta.json) | |" >> $out; echo "$id: obsolete"; continue; fi
  if ! git -C /repo apply --check $d/patch.diff 2>/dev/null; then echo "| $id | $prop | patch no longer applies | |" >> $out; continue; fi
  git -C /repo apply $d/patch.diff
  res=$(bin/check $prop quick 2>&1); rc=$?
  git -C /repo checkout -- .; git -C /verif checkout -- evidence 2>/dev/null
  v=$(echo "$res" | grep -c '^VIOLATION'); nf=$(echo "$res" | grep -c 'no-failing-input-found')
  if [ $rc -ne 0 ] && [ $v -gt 0 ]; then
    if [ $nf -gt 0 ]; then o="caught (no-failing-input-found)"; else o="caught with failing input"; fi
  else o="MISSED"; fi
  detail=$(echo "$res" | grep -m1 'correspondence\|theorems not' | cut -c1-110 | tr '|' '/')
  echo "| $id | $prop | $o | $detail |" >> $out
  echo "$id: $o"
done

//go:build verif

package torrent

import (
	"io"
	"io/fs"
)

// ReadDataForVerif exposes readData (tar extraction of a moved torrent).
func ReadDataForVerif(r io.Reader, dir string, perm fs.FileMode) error { return readData(r, dir, perm) }

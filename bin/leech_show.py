#!/usr/bin/env python3
# developer helper: decode a kind-101 case line (reads cases file, index)
import sys
f, idx = sys.argv[1], int(sys.argv[2])
line = open(f).read().splitlines()[idx]
parts = line.split('|')
inp = list(map(int, parts[1].split())); obs = list(map(int, parts[2].split()))
PL, total, nf = inp[0:3]; k = 3
files = [(inp[k+2*i], inp[k+2*i+1]) for i in range(nf)]; k += 2*nf
q, maxdup, seq, P, np_ = inp[k:k+5]; k += 5
d0 = inp[k:k+np_]; k += np_; ieq = inp[k:k+np_]; k += np_
print(f'PL={PL} total={total} files={files} q={q} maxdup={maxdup} seq={seq} P={P} np={np_} done0={d0} initEq={ieq}')
names = {1:'have',2:'bitfield',3:'haveall',4:'allowedfast',5:'unchoke',6:'choke',7:'reject',8:'piece',9:'WRITEDONE',10:'snub',11:'disconnect',12:'connect',13:'exthandshake',14:'havenone'}
o = 1
n = 0
while inp[k] != -1:
    ev = inp[k:k+6]; k += 6; bits = inp[k:k+np_]; k += np_; asg = inp[k:k+P]; k += P
    frames = []
    for p in range(P):
        c = inp[k]; k += 1
        frames.append([tuple(inp[k+4*i:k+4*i+4]) for i in range(c)]); k += 4*c
    per = 3*np_ + 3*P + 5
    st = obs[o:o+per]; o += per
    req = []
    for i in range(np_):
        c = obs[o]; req.append(obs[o+1:o+1+c]); o += 1+c
    extra = ''
    if ev[0] == 9:
        idx_, ok, werr = obs[o:o+3]; o += 3; ws = []
        if not werr:
            nw = obs[o]; o += 1; ws = obs[o:o+4*nw]; o += 4*nw
        extra = f' write idx={idx_} ok={ok} werr={werr} writes={ws}'
    done = st[0:np_]; wr = st[np_:2*np_]; peers = [tuple(st[3*np_+3*i:3*np_+3*i+3]) for i in range(P)]
    tail = st[3*np_+3*P:]
    a = ['-' if x < 0 else f'{x//2}{"af" if x%2 else ""}' for x in asg]
    fr = {i: f for i, f in enumerate(frames) if f}
    print(f'{n:3d} {names.get(ev[0],ev[0]):11s} p={ev[1]} a={ev[2]} b={ev[3]} c={ev[4]} g={ev[5]} bits={bits if ev[0]==2 else ""} | asg={a} done={done} wr={wr} peers(cl,int,pend)={peers} ban,np,compl,st,susp={tail} req={req}{extra} frames={fr}')
    n += 1
print('expect', inp[k+1])
print('final', obs[o:])

From RainV Require Import Lib Paths.
Theorem C07_placeholder : True. Proof. exact I. Qed.
Print Assumptions C07_placeholder.

//go:build verif

package verifhook

import (
	"fmt"
	"math/rand"
	"os"
	"time"

	"github.com/cenkalti/rain/v2/torrent"
)

// kind 501: the process dies at a chosen instant of a download history -- after any handled event, or at
// the entry/exit of any storage write of a piece -- and a fresh session is started on what was on
// disk then (resume database + storage image), optionally with some files lost.
//
// in  = [np nf (padonly)*np | haspersisted (bits)*np | (pok)*np (fexists)*nf | window]   (the disk at the crash, after the loss;
//       window = 1: the crash fell between an allocator re-creating lost files and the loop handling its result)
// obs = after restart, start, allocation and verification: [status hasbf (bits)*np completed crashed]

type snap struct {
	db     []byte
	sto    *torrent.VStorage
	window bool // taken while an allocator that re-created lost files had not yet reported to the loop
}

func genCrash(r *rand.Rand, tier string) Case {
	l := genVLayout(r, 3)
	content := l.Content(r.Int63())
	np := l.NumPieces()
	h := &lifeH{r: r, l: l, content: content, np: np, note: map[string]int{}}
	for i := range l.Lens {
		if !l.Pads[i] {
			h.files = append(h.files, i)
		}
	}
	image := map[string][]byte{}
	if r.Intn(4) == 0 {
		image = l.Preload(content)
		bad := r.Intn(np)
		pos := int64(bad)*l.PL + r.Int63n(l.PieceLen(bad))
		var off int64
		for i, n := range l.Lens {
			if pos >= off && pos < off+n && !l.Pads[i] {
				image[l.FileName(i)][pos-off] ^= 0xFF
			}
			off += n
		}
	}
	info := l.InfoBytes(content, -1)
	tune := func(c *torrent.Config) {
		c.RequestTimeout = time.Hour
		c.PieceReadTimeout = time.Hour
		c.UnchokedPeers = 0
		c.OptimisticUnchokedPeers = 0
	}
	v, err := torrent.NewVLoop(torrent.VLoopOpts{TorrentFile: torrent.BuildTorrentFile(info, nil), Preload: image, Tune: tune})
	if err != nil {
		return Case{In: []int64{0}, Obs: []int64{-710}}
	}
	v.Truth, v.PL = content, l.PL
	h.v = v
	// snapshots: after every event, and at every write boundary
	var snaps []snap
	window := false
	take := func() {
		db, err := os.ReadFile(v.DBPath())
		if err != nil {
			return
		}
		snaps = append(snaps, snap{db: db, sto: v.Sto.Clone(), window: window})
	}
	v.Sto.OnWrite = func(exit bool) { take() }
	take()
	// a download history: start, allocate, (verify), pieces, now and then a stop / restart / periodic persist
	steps := 3 + r.Intn(10)
	for i := 0; i < steps && v.Crash == ""; i++ {
		st := lifeStatus(v.Snapshot().Status)
		switch st {
		case 0:
			// now and then some or all files disappear while the torrent is stopped
			if r.Intn(4) == 0 {
				for _, i := range h.files {
					if r.Intn(2) == 0 {
						v.Sto.Delete(l.FileName(i))
						window = true
					}
				}
			}
			v.Start()
		case 4:
			v.PumpEx(10*time.Second, torrent.ClsAlloc)
			window = false
		case 5:
			v.PumpEx(10*time.Second, torrent.ClsVerify)
		case 6:
			v.PumpEx(10*time.Second, torrent.ClsStopped)
		case 1:
			switch x := r.Intn(10); {
			case x < 7:
				if r.Intn(8) == 0 {
					v.Sto.ArmWriteError() // the disk fails during the next piece write
				}
				if h.download() < 0 {
					h.note["nodownload"]++
				}
			case x < 8:
				v.Stop()
				h.seed = nil
			default:
				v.PersistNow()
			}
		case 2:
			if r.Intn(2) == 0 {
				v.Stop()
				h.seed = nil
			} else {
				v.PersistNow()
			}
		}
		take()
	}
	v.Sto.OnWrite = nil
	crash := v.Crash != ""
	v.Close()
	if crash || len(snaps) == 0 {
		return Case{In: []int64{0}, Obs: []int64{-712}}
	}
	// the crash instant
	s := snaps[r.Intn(len(snaps))]
	if r.Intn(3) == 0 { // the later ones are the interesting ones
		s = snaps[len(snaps)-1-r.Intn(1+len(snaps)/3)]
	}
	// some files may be lost as well
	if r.Intn(3) == 0 {
		for _, i := range h.files {
			if r.Intn(2) == 0 {
				s.sto.Delete(l.FileName(i))
			}
		}
	}
	v2, err := torrent.OpenVLoop(s.db, s.sto, tune)
	if err != nil {
		return Case{In: []int64{0}, Obs: []int64{-713}, Note: err.Error()}
	}
	defer v2.Close()
	v2.Truth, v2.PL = content, l.PL
	h.v = v2
	fex, pok := h.disk()
	in := []int64{int64(np), int64(len(h.files))}
	in = append(in, h.padOnly()...)
	pb := v2.PersistedBitfield(np)
	in = append(in, b2i(pb != nil))
	for i := 0; i < np; i++ {
		in = append(in, b2i(pb != nil && pb[i]))
	}
	in = append(in, pok...)
	in = append(in, fex...)
	in = append(in, b2i(s.window))
	v2.Start()
	for i := 0; i < 6; i++ {
		st := lifeStatus(v2.Snapshot().Status)
		if st == 4 {
			v2.PumpEx(10*time.Second, torrent.ClsAlloc)
		} else if st == 5 {
			v2.PumpEx(10*time.Second, torrent.ClsVerify)
		} else {
			break
		}
	}
	sn := v2.Snapshot()
	obs := []int64{lifeStatus(sn.Status), b2i(sn.Have != nil)}
	for i := 0; i < np; i++ {
		obs = append(obs, b2i(i < len(sn.Have) && sn.Have[i]))
	}
	obs = append(obs, b2i(sn.Completed), b2i(v2.Crash != ""))
	return Case{In: in, Obs: obs, Note: fmt.Sprintf("snaps=%d", len(snaps))}
}

func init() {
	Register(501, "crash at a chosen instant of a download history (incl. between the file writes of a piece), restart on the disk image and resume database of that instant", genCrash)
}

(* addrlist as a bounded set keyed by priority: invariants over every operation sequence. *)
From RainV Require Import Lib Stree AddrList.
From Coq Require Import ZifyBool Permutation.

Definition prios (l : list entry) : list Z := map e_prio l.

Lemma replace_prio_prios l e : prios (fst (replace_prio l e)) = prios l.
Proof.
  induction l as [|x r IH]; cbn [replace_prio]; [reflexivity|].
  destruct (e_prio x =? e_prio e) eqn:E; cbn [fst prios map].
  - f_equal. lia.
  - destruct (replace_prio r e) as [r' o]. cbn [fst prios map] in *. f_equal. exact IH.
Qed.

Lemma replace_prio_none l e : snd (replace_prio l e) = None <-> ~ In (e_prio e) (prios l).
Proof.
  induction l as [|x r IH]; cbn [replace_prio prios map In snd]; [tauto|].
  destruct (e_prio x =? e_prio e) eqn:E; cbn [snd].
  - split; [discriminate|]. intros H. exfalso. apply H. left. lia.
  - destruct (replace_prio r e) as [r' o]. cbn [snd] in *. rewrite IH. split; [intros H [Hx|Hx]; [lia|tauto]|tauto].
Qed.

Lemma replace_prio_in l e x : In x (fst (replace_prio l e)) -> x = e \/ In x l.
Proof.
  induction l as [|y r IH]; cbn [replace_prio fst]; [tauto|].
  destruct (e_prio y =? e_prio e); cbn [fst In].
  - intros [<-|H]; auto.
  - destruct (replace_prio r e) as [r' o]. cbn [fst In] in *. intros [<-|H]; [auto|]. destruct (IH H); auto.
Qed.

Definition P_all (P : entry -> Prop) (l : list entry) : Prop := Forall P l.

Lemma add_one_inv (P : entry -> Prop) l cs e l' cs' :
  NoDup (prios l) -> Forall P l -> P e -> add_one (l, cs) e = (l', cs') ->
  NoDup (prios l') /\ Forall P l'.
Proof.
  intros Hnd HP He H. unfold add_one in H.
  pose proof (replace_prio_prios l e) as Hp. pose proof (replace_prio_none l e) as Hn.
  pose proof (replace_prio_in l e) as Hi.
  destruct (replace_prio l e) as [l1 [prev|]]; cbn [fst snd] in *; inversion H; subst.
  - split; [rewrite Hp; assumption|]. apply Forall_forall. intros x Hx.
    destruct (Hi _ Hx) as [->|Hx']; [assumption|]. rewrite Forall_forall in HP. auto.
  - split.
    + unfold prios. rewrite map_app. cbn [map]. apply NoDup_app_one; [assumption|]. apply Hn. reflexivity.
    + apply Forall_app. split; [assumption|constructor; [assumption|constructor]].
Qed.

(* C18 — blocklist semantics are exact (tree, CIDR, reload). *)
From RainV Require Import Lib Stree StreeProofs AddrList AddrListProofs.

(* for every list of closed uint32 ranges (overlapping, nested, adjacent, duplicates, single
   points, the extremes 0 and 2^32-1) the tree contains v exactly when some range does *)
Theorem C18_stree_exact : forall rs v, wf_ranges rs -> contains (build rs) v = in_some_range rs v.
Proof. exact stree_exact. Qed.
Print Assumptions C18_stree_exact.

Theorem C18_cidr_range : forall ip k v, 0 <= ip < two32s -> 0 <= k <= 32 ->
  let '(a, b) := cidr_range ip k in
  0 <= a /\ a <= b /\ b < two32s /\ (a <= v <= b <-> v / 2 ^ (32 - k) = ip / 2 ^ (32 - k)).
Proof. exact cidr_range_spec. Qed.
Print Assumptions C18_cidr_range.

Theorem C18_blocked_exact : forall ls t n v, Forall line_ok ls -> load ls = Some (t, n) ->
  contains t v = in_some_range (ranges_of ls) v /\ n = zlen (ranges_of ls).
Proof. exact load_exact. Qed.
Print Assumptions C18_blocked_exact.

Theorem C18_reload_atomic : forall b ls, load ls = None -> fst (reload b ls) = b.
Proof. exact reload_atomic. Qed.
Print Assumptions C18_reload_atomic.

(* the queue of candidate addresses is a set keyed by priority whose members all passed the
   push-time filter, in every state reachable by any sequence of push / pop / reset *)
Theorem C18_addrlist_invariant : forall c ops, Inv c (fold_left (astep c) ops al_init).
Proof. exact reachable_inv. Qed.
Print Assumptions C18_addrlist_invariant.

Theorem C18_addrlist_bounded : forall c s src addrs, 0 <= maxItems c ->
  zlen (items (push c s src addrs)) <= maxItems c.
Proof. exact push_bounded. Qed.
Print Assumptions C18_addrlist_bounded.

Theorem C18_addrlist_pop_max : forall c s s' e, Inv c s -> pop s = (s', Some e) ->
  In e (items s) /\ (forall x, In x (items s) -> e_prio x <= e_prio e) /\
  (forall x, In x (items s') <-> In x (items s) /\ x <> e) /\ unfiltered c e.
Proof. exact pop_spec. Qed.
Print Assumptions C18_addrlist_pop_max.

(* no address handed out for dialling has port 0, is the client's own loopback address or its
   external IP, or lies in the blocklist loaded when it was pushed *)
Theorem C18_popped_never_filtered : forall c ops s' e,
  pop (fold_left (astep c) ops al_init) = (s', Some e) -> filtered c (e_ip e) (e_port e) = false.
Proof. exact popped_never_filtered. Qed.
Print Assumptions C18_popped_never_filtered.

(* Model of the session registry (torrent/session.go, session_add.go, session_load.go): torrents by id,
   the pool of listening ports, and the resume database as the set of records the session keeps in
   step with the registry.  Which free port a new torrent gets is an observed choice (map iteration),
   validated.  Definitions only. *)
From RainV Require Import Lib.

Record rtor := { r_num : Z; r_cat : Z; r_port : Z; r_started : bool; r_hasinfo : bool; r_ntr : Z; r_given : Z }.
Record reg := { g_tors : list rtor;       (* live torrents = records in the database, by creation number *)
                g_free : list Z;          (* free ports of the configured range *)
                g_next : Z;               (* number of the next torrent *)
                g_nports : Z;
                g_bad : Z }.

Definition zmemb (x : Z) (l : list Z) : bool := existsb (Z.eqb x) l.
Definition zremove (x : Z) (l : list Z) : list Z := filter (fun y => negb (y =? x)) l.
Fixpoint zinsert (x : Z) (l : list Z) : list Z :=
  match l with [] => [x] | y :: r => if x <=? y then x :: l else y :: zinsert x r end.

Definition with_bad_r (s : reg) (w : Z) : reg :=
  {| g_tors := g_tors s; g_free := g_free s; g_next := g_next s; g_nports := g_nports s; g_bad := if g_bad s =? 0 then w else g_bad s |}.

(* trackers in the catalogue torrent #cat: announce-list tiers [:cat mod 3] of [[a]; [b; c]]; a magnet link carries one *)
Definition cat_trackers (cat : Z) : Z := if cat mod 3 =? 0 then 0 else if cat mod 3 =? 1 then 1 else 3.

(* AddTorrent / AddURI(magnet).  Returns the new state and whether the call failed. *)
Definition r_add (s : reg) (magnet : bool) (cat idsel : Z) (stopped : bool) (port : Z) : reg * bool :=
  match g_free s with
  | [] => (s, true)                                    (* no free port *)
  | _ =>
      if (0 <? idsel) && existsb (fun t => r_given t =? idsel) (g_tors s) then (s, true)   (* duplicate torrent id: the port goes back *)
      else if negb (zmemb port (g_free s)) then (with_bad_r s 300, false)                  (* the session chose a port it did not have *)
      else
        ({| g_tors := g_tors s ++ [{| r_num := g_next s; r_cat := cat; r_port := port; r_started := negb stopped;
                                      r_hasinfo := negb magnet; r_ntr := if magnet then 1 else cat_trackers cat; r_given := idsel |}];
            g_free := zremove port (g_free s); g_next := g_next s + 1; g_nports := g_nports s; g_bad := g_bad s |}, false)
  end.

Definition r_remove (s : reg) (t : Z) : reg :=
  match filter (fun x => r_num x =? t) (g_tors s) with
  | x :: _ => {| g_tors := filter (fun y => negb (r_num y =? t)) (g_tors s); g_free := zinsert (r_port x) (g_free s);
                 g_next := g_next s; g_nports := g_nports s; g_bad := g_bad s |}
  | [] => s
  end.

Definition r_upd (s : reg) (t : Z) (f : rtor -> rtor) : reg :=
  {| g_tors := map (fun x => if r_num x =? t then f x else x) (g_tors s); g_free := g_free s; g_next := g_next s;
     g_nports := g_nports s; g_bad := g_bad s |}.
Definition set_started (x : rtor) (b : bool) : rtor :=
  {| r_num := r_num x; r_cat := r_cat x; r_port := r_port x; r_started := b; r_hasinfo := r_hasinfo x; r_ntr := r_ntr x; r_given := r_given x |}.
Definition add_tr (x : rtor) : rtor :=
  {| r_num := r_num x; r_cat := r_cat x; r_port := r_port x; r_started := r_started x; r_hasinfo := r_hasinfo x; r_ntr := r_ntr x + 1; r_given := r_given x |}.

(* the free ports after loading the records of [l] in a fresh session *)
Definition ports_after_load (nports : Z) (l : list rtor) : list Z :=
  filter (fun p => negb (existsb (fun t => r_port t =? p) l)) (map Z.of_nat (seq 0 (Z.to_nat nports))).

(* close + reopen: every record is loaded again and takes its port *)
Definition r_reopen (s : reg) : reg :=
  {| g_tors := g_tors s; g_free := ports_after_load (g_nports s) (g_tors s); g_next := g_next s; g_nports := g_nports s; g_bad := g_bad s |}.
(* compact + reopen on the compacted file: only torrents that have their metadata are written *)
Definition r_compact (s : reg) : reg :=
  let l := filter r_hasinfo (g_tors s) in
  {| g_tors := l; g_free := ports_after_load (g_nports s) l; g_next := g_next s; g_nports := g_nports s; g_bad := g_bad s |}.

Definition obs_reg (s : reg) (err : bool) : list Z :=
  b2z err :: zlen (g_tors s) ::
  flat_map (fun t => [r_num t; r_cat t; r_port t; b2z (r_started t); b2z (r_hasinfo t); r_ntr t]) (g_tors s) ++
  zlen (g_free s) :: g_free s ++ [1].

Fixpoint run_reg_go (fuel : nat) (s : reg) (l : list Z) : list Z :=
  match fuel with
  | O => if g_bad s =? 0 then [] else [-555; g_bad s]
  | S f =>
    match l with
    | 1 :: cat :: idsel :: st :: port :: r => let '(s', e) := r_add s false cat idsel (z2b st) port in obs_reg s' e ++ run_reg_go f s' r
    | 3 :: cat :: idsel :: st :: port :: r => let '(s', e) := r_add s true cat idsel (z2b st) port in obs_reg s' e ++ run_reg_go f s' r
    | 2 :: r => obs_reg s true ++ run_reg_go f s r
    | 4 :: t :: r => let s' := r_remove s t in obs_reg s' false ++ run_reg_go f s' r
    | 5 :: t :: r => let s' := r_upd s t (fun x => set_started x true) in obs_reg s' false ++ run_reg_go f s' r
    | 6 :: t :: r => let s' := r_upd s t (fun x => set_started x false) in obs_reg s' false ++ run_reg_go f s' r
    | 7 :: t :: r => let s' := r_upd s t add_tr in obs_reg s' false ++ run_reg_go f s' r
    | 8 :: r => let s' := r_reopen s in obs_reg s' false ++ run_reg_go f s' r
    | 9 :: r => let s' := r_compact s in obs_reg s' false ++ run_reg_go f s' r
    | _ => if g_bad s =? 0 then [] else [-555; g_bad s]
    end
  end.

Definition reg_init (nports : Z) : reg :=
  {| g_tors := []; g_free := map Z.of_nat (seq 0 (Z.to_nat nports)); g_next := 0; g_nports := nports; g_bad := 0 |}.

Definition run_registry (inp : list Z) : list Z :=
  match inp with
  | nports :: ops => obs_reg (reg_init nports) false ++ run_reg_go (length ops) (reg_init nports) ops
  | [] => [-779]
  end.

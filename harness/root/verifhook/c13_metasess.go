//go:build verif

package verifhook

import (
	"bytes"
	"crypto/sha1"
	"encoding/hex"
	"fmt"
	"math/rand"
	"strconv"
	"time"

	"github.com/cenkalti/rain/v2/internal/peersource"
	"github.com/cenkalti/rain/v2/torrent"
	"github.com/zeebo/bencode"
)

// kind 1303: a magnet torrent fetching its metadata in the stepped event loop from scripted peers.
//
// in  = [truesize maxsize parallel q P npieces] then per handled event
//       [code p a b c d | idl*P (observed: which peers hold an info downloader after the handler)
//        | per peer: n (kind x)*  frames received during the event: 1 = metadata request x, 2 = metadata reject x]
//       then [-1]
// obs = per event [closed*P snubbed*P adopted status]; at the end [status closed*P (closed and downloading)*P]
//
// codes: 1 extension handshake (a = has ut_metadata, b = metadata_size, c = reqq) | 2 metadata data (a = piece, b = len,
//        c = bytes are the true ones, d = total_size) | 3 metadata reject (a = piece) | 4 snub timer | 5 disconnect
//        6 metadata request from the peer (a = piece) | 7 another message while the metadata is unknown (a = wire id)
//        12 connect (a = fast, b = extension protocol)

type msPeer struct {
	vp     *torrent.VPeer
	ext    bool
	out    []int64 // metadata pieces requested of this peer
	fresh  [][2]int64
	gone   bool
	shaken bool
	size   int64
}

type metaH struct {
	r     *rand.Rand
	v     *torrent.VLoop
	info  []byte
	P     int
	peers []*msPeer
	in    []int64
	obs   []int64
	note  map[string]int
}

const utMetaID = 3

func metaStatus(s string) int64 {
	switch s {
	case "Stopped":
		return 0
	case "Downloading":
		return 1
	case "Seeding":
		return 2
	case "Downloading Metadata":
		return 3
	case "Allocating":
		return 4
	case "Verifying":
		return 5
	}
	return 9
}

func bencInt(b []byte, key string) (int64, bool) {
	k := []byte(strconv.Itoa(len(key)) + ":" + key + "i")
	i := bytes.Index(b, k)
	if i < 0 {
		return 0, false
	}
	j := bytes.IndexByte(b[i+len(k):], 'e')
	if j < 0 {
		return 0, false
	}
	n, err := strconv.ParseInt(string(b[i+len(k):i+len(k)+j]), 10, 64)
	return n, err == nil
}

func (h *metaH) collect() {
	h.v.Barrier()
	for _, p := range h.peers {
		fs, _ := p.vp.Take()
		p.fresh = nil
		for _, f := range fs {
			if f.ID != 20 || len(f.Payload) < 1 || f.Payload[0] != utMetaID {
				continue
			}
			t, ok1 := bencInt(f.Payload[1:], "msg_type")
			x, ok2 := bencInt(f.Payload[1:], "piece")
			if !ok1 || !ok2 {
				continue
			}
			switch t {
			case 0:
				p.fresh = append(p.fresh, [2]int64{1, x})
				p.out = append(p.out, x)
			case 2:
				p.fresh = append(p.fresh, [2]int64{2, x})
			}
		}
	}
}

func (h *metaH) record(code int64, p int, a, b, c, d int64) {
	h.in = append(h.in, code, int64(p), a, b, c, d)
	s := h.v.Snapshot()
	for k := 0; k < h.P; k++ {
		h.in = append(h.in, b2i(k < len(s.InfoDl) && s.InfoDl[k]))
	}
	h.collect()
	for k := 0; k < h.P; k++ {
		if k >= len(h.peers) {
			h.in = append(h.in, 0)
			continue
		}
		h.in = append(h.in, int64(len(h.peers[k].fresh)))
		for _, f := range h.peers[k].fresh {
			h.in = append(h.in, f[0], f[1])
		}
	}
	for k := 0; k < h.P; k++ {
		h.obs = append(h.obs, b2i(k < len(s.Peers) && s.Peers[k].Closed))
	}
	for k := 0; k < h.P; k++ {
		h.obs = append(h.obs, b2i(k < len(s.InfoSnubbed) && s.InfoSnubbed[k]))
	}
	h.obs = append(h.obs, b2i(s.HasInfo), metaStatus(s.Status))
	h.note["ev"+strconv.FormatInt(code, 10)]++
}

func (h *metaH) usable(p int) bool {
	return p < len(h.peers) && !h.peers[p].gone && !h.peers[p].vp.Pe.Closed
}

// send delivers one frame and records the event the loop handled.
func (h *metaH) send(p int, id byte, payload []byte) {
	if h.peers[p].vp.Send(id, payload) != nil {
		return
	}
	e := h.v.PumpEx(10*time.Second, torrent.ClsMsg|torrent.ClsPiece)
	if e.Code == torrent.EvNone {
		h.note["msgtimeout"]++
		return
	}
	switch {
	case e.MsgID == 20:
		h.record(1, e.Peer, e.B, e.A, int64(e.Index), 0)
	case e.MsgID == 21 && e.A == 1:
		h.record(2, e.Peer, int64(e.Index), int64(e.Len), b2i(e.Good), e.B)
	case e.MsgID == 21 && e.A == 2:
		h.record(3, e.Peer, int64(e.Index), 0, 0, 0)
	case e.MsgID == 21 && e.A == 0:
		h.record(6, e.Peer, int64(e.Index), 0, 0, 0)
	case e.Code == torrent.EvPieceMsg:
		h.record(7, e.Peer, 7, 0, 0, 0)
	case e.MsgID == 5:
		h.record(7, e.Peer, 5, int64(e.Len), 0, 0)
	case e.MsgID >= 0 && e.MsgID < 20:
		h.record(7, e.Peer, int64(e.MsgID), int64(e.Index), 0, 0)
	default:
		h.note["othermsg"]++
	}
}

func (h *metaH) connect() bool {
	if len(h.peers) >= h.P {
		return false
	}
	fast := h.r.Intn(2) == 0
	ext := h.r.Intn(6) > 0
	vp, err := h.v.AddPeer(fast, ext, peersource.Incoming)
	if err != nil {
		h.note["connecterr"]++
		return false
	}
	h.peers = append(h.peers, &msPeer{vp: vp, ext: ext})
	h.record(12, len(h.peers)-1, b2i(fast), b2i(ext), 0, 0)
	return true
}

func (h *metaH) handshake(p int, size int64, hasMeta bool, reqq int64) {
	m := map[string]any{}
	if hasMeta {
		m["ut_metadata"] = utMetaID
	}
	d := map[string]any{"m": m}
	if size != 0 {
		d["metadata_size"] = size
	}
	if reqq > 0 {
		d["reqq"] = reqq
	}
	b, _ := bencode.EncodeBytes(d)
	h.peers[p].size = size
	h.send(p, 20, append([]byte{0}, b...))
}

func (h *metaH) metaMsg(p int, typ, piece, total int64, data []byte) {
	d := map[string]any{"msg_type": typ, "piece": piece}
	if total > 0 {
		d["total_size"] = total
	}
	b, _ := bencode.EncodeBytes(d)
	pl := append([]byte{1}, b...) // the client's id for ut_metadata
	pl = append(pl, data...)
	h.send(p, 20, pl)
}

func (h *metaH) block(p int, piece int64, good bool) []byte {
	size := h.peers[p].size
	lo := piece * 16384
	hi := lo + 16384
	if hi > size {
		hi = size
	}
	if hi < lo {
		hi = lo
	}
	data := make([]byte, hi-lo)
	for i := range data {
		if lo+int64(i) < int64(len(h.info)) {
			data[i] = h.info[lo+int64(i)]
		} else {
			data[i] = byte(h.r.Intn(256))
		}
	}
	if !good && len(data) > 0 {
		data[h.r.Intn(len(data))] ^= byte(1 + h.r.Intn(255))
	}
	return data
}

func (h *metaH) step() {
	r := h.r
	if len(h.peers) == 0 {
		h.connect()
		return
	}
	p := r.Intn(len(h.peers))
	if !h.usable(p) {
		for k := range h.peers {
			if h.usable(k) {
				p = k
			}
		}
	}
	if !h.usable(p) {
		h.connect()
		return
	}
	q := h.peers[p]
	n := int64(len(h.info))
	x := r.Intn(100)
	switch {
	case x < 22 && q.ext && !q.shaken:
		q.shaken = true
		size := pick(r, n, n, n, n, n+pick(r, 1, 100, 16384), n-1, 0, 65536, 65537, 1<<20, 1<<32+n, 16384, 32768)
		if size < 0 {
			size = 0
		}
		h.handshake(p, size, r.Intn(8) > 0, pick(r, 0, 0, 1, 300))
	case x < 55: // answer a metadata request
		if len(q.out) > 0 {
			i := 0
			if r.Intn(4) == 0 {
				i = r.Intn(len(q.out))
			}
			piece := q.out[i]
			q.out = append(q.out[:i], q.out[i+1:]...)
			data := h.block(p, piece, r.Intn(8) > 0)
			if r.Intn(12) == 0 && len(data) > 0 {
				data = data[:len(data)-1]
			}
			h.metaMsg(p, 1, piece, pick(r, q.size, n, 0), data)
		} else if q.ext && !q.shaken {
			q.shaken = true
			h.handshake(p, n, true, 0)
		} else {
			h.send(p, 1, nil)
		}
	case x < 62: // hostile metadata data
		piece := pick(r, 0, 1, 2, 3, 1000, 1<<31)
		h.metaMsg(p, 1, piece, pick(r, q.size, n, 0), h.block(p, piece%4, r.Intn(2) == 0))
	case x < 67:
		h.metaMsg(p, 2, pick(r, 0, 1, 5), 0, nil)
	case x < 72:
		h.metaMsg(p, 0, pick(r, 0, 1, 7), 0, nil)
	case x < 77: // snub timer
		h.v.Snub(q.vp)
		h.record(4, p, 0, 0, 0, 0)
	case x < 83:
		h.collect()
		q.vp.Gone = true
		q.vp.Conn.Close()
		q.gone = true
		e := h.v.PumpEx(10*time.Second, torrent.ClsDisc)
		if e.Code == torrent.EvNone {
			h.note["disctimeout"]++
			return
		}
		h.record(5, e.Peer, 0, 0, 0, 0)
	case x < 93: // ordinary messages before the metadata is known
		switch r.Intn(10) {
		case 0:
			h.send(p, 4, u32s(pick(r, 0, 1, 1000)))
		case 1:
			h.send(p, 5, []byte{0xff, 0x80})
		case 2:
			h.send(p, 14, nil)
		case 3:
			h.send(p, 17, u32s(pick(r, 0, 7)))
		case 4:
			h.send(p, 1, nil)
		case 5:
			h.send(p, 0, nil)
		case 6:
			h.send(p, 6, u32s(0, 0, 16384))
		case 7:
			h.send(p, 16, u32s(0, 0, 16384))
		case 8:
			h.send(p, 8, u32s(0, 0, 16384))
		case 9:
			h.send(p, 7, append(u32s(0, 0), make([]byte, 100)...))
		}
	default:
		h.connect()
	}
}

func genMetaSess(r *rand.Rand, tier string) Case {
	l := genVLayout(r, 2)
	content := l.Content(r.Int63())
	infoMap := map[string]any{}
	_ = bencode.DecodeBytes(l.InfoBytes(content, -1), &infoMap)
	if f := pick(r, 0, 0, 20000, 40000); f > 0 {
		fb := make([]byte, f) // never all zero inside one block: an untouched block must differ from the truth
		r.Read(fb)
		for i := range fb {
			if fb[i] == 0 {
				fb[i] = 1
			}
		}
		infoMap["zz-filler"] = string(fb)
	}
	info, _ := bencode.EncodeBytes(infoMap)
	ih := sha1.Sum(info)
	parallel := pick(r, 1, 2)
	q := pick(r, 1, 50)
	v, err := torrent.NewVLoop(torrent.VLoopOpts{Magnet: "magnet:?xt=urn:btih:" + hex.EncodeToString(ih[:]), Tune: func(c *torrent.Config) {
		c.MaxMetadataSize = 65536
		c.ParallelMetadataDownloads = int(parallel)
		c.DefaultRequestsOut = int(q)
		c.RequestTimeout = time.Hour
		c.PieceReadTimeout = time.Hour
		c.UnchokedPeers = 0
		c.OptimisticUnchokedPeers = 0
	}})
	if err != nil {
		return Case{In: []int64{0}, Obs: []int64{-710}}
	}
	defer v.Close()
	v.TruthInfo = info
	v.Start()
	v.Settle(vQuiet)
	h := &metaH{r: r, v: v, info: info, P: 2 + r.Intn(3), note: map[string]int{}}
	h.in = []int64{int64(len(info)), 65536, parallel, q, int64(h.P), int64(l.NumPieces())}
	h.obs = []int64{metaStatus(v.Snapshot().Status)}
	if r.Intn(4) == 0 && h.connect() { // messages to be replayed once the metadata is known: a bad one first
		p := len(h.peers) - 1
		h.send(p, 1, nil)
		switch r.Intn(3) {
		case 0:
			h.send(p, 4, u32s(1000))
		case 1:
			h.send(p, 5, []byte{0xff, 0x80})
		case 2:
			h.send(p, 17, u32s(7))
		}
		if h.usable(p) {
			if r.Intn(2) == 0 {
				h.send(p, 14, nil)
			} else {
				h.send(p, 4, u32s(0))
			}
		}
	}
	steps := 6 + r.Intn(30)
	if len(h.peers) > 0 && r.Intn(2) == 0 {
		steps = r.Intn(3) // go straight to the honest peer: the queued messages survive until the replay
	}
	for i := 0; i < steps && v.Crash == "" && !v.Snapshot().HasInfo; i++ {
		h.step()
	}
	// often an honest peer finishes the job
	if !v.Snapshot().HasInfo && v.Crash == "" && r.Intn(3) > 0 {
		if h.connect() {
			p := len(h.peers) - 1
			if h.peers[p].ext {
				h.peers[p].shaken = true
				h.handshake(p, int64(len(info)), true, 0)
				for i := 0; i < 8 && h.usable(p) && !v.Snapshot().HasInfo && len(h.peers[p].out) > 0; i++ {
					piece := h.peers[p].out[0]
					h.peers[p].out = h.peers[p].out[1:]
					h.metaMsg(p, 1, piece, int64(len(info)), h.block(p, piece, true))
				}
			}
		}
	}
	// allocating: the metadata is known, the allocator's result has not been handled yet
	if v.Snapshot().HasInfo && v.Crash == "" && r.Intn(2) == 0 {
		for i := 0; i < 1+r.Intn(5) && v.Crash == ""; i++ {
			p := -1
			for k := range h.peers {
				if h.usable(k) {
					p = k
				}
			}
			if p < 0 || r.Intn(4) == 0 {
				if !h.connect() {
					break
				}
				p = len(h.peers) - 1
			}
			switch r.Intn(8) {
			case 0:
				h.send(p, 6, u32s(0, 0, 16384))
			case 1:
				h.send(p, 4, u32s(pick(r, 0, 1, 1000)))
			case 2:
				h.send(p, 5, []byte{0xff, 0x80})
			case 3:
				h.send(p, 1, nil)
			case 4:
				h.send(p, 7, append(u32s(0, 0), make([]byte, 100)...))
			case 5:
				h.metaMsg(p, 0, pick(r, 0, 1, 2, 3, 7), 0, nil)
			case 6:
				h.send(p, 16, u32s(0, 0, 16384))
			case 7:
				h.send(p, 14, nil)
			}
		}
	}
	h.in = append(h.in, -1)
	for i := 0; i < 100; i++ {
		v.Settle(vQuiet)
		st := v.Snapshot().Status
		if st != "Allocating" && st != "Verifying" {
			break
		}
	}
	s := v.Snapshot()
	h.obs = append(h.obs, metaStatus(s.Status))
	for k := 0; k < h.P; k++ {
		h.obs = append(h.obs, b2i(k < len(s.Peers) && s.Peers[k].Closed))
	}
	// a closed peer must not hold a piece downloader
	for k := 0; k < h.P; k++ {
		h.obs = append(h.obs, b2i(k < len(s.Peers) && s.Peers[k].Closed && s.Peers[k].DownloadPiece >= 0))
	}
	h.obs = append(h.obs, int64(s.Available)) // pieces held by at least one connected peer, as the picker counts them
	if v.Crash != "" {
		h.obs = append(h.obs, CrashMark)
	}
	note := ""
	for k, n := range h.note {
		note += fmt.Sprintf("%s=%d ", k, n)
	}
	if s.HasInfo {
		note += "adopted=1"
	}
	if h.v.BarrierTimeouts > 0 {
		note += fmt.Sprintf(" barriertimeout=%d", h.v.BarrierTimeouts)
	}
	return Case{In: h.in, Obs: h.obs, Note: note}
}

func init() {
	Register(1303, "magnet torrent fetching metadata in the stepped event loop from scripted honest/lying peers", genMetaSess)
}
